#!/bin/sh
# Offline setup: parse every specification module with SANY and run the harness self-tests.
cd "$(dirname "$0")" || exit 2
mkdir -p .work .cache evidence
exec env PYTHONHASHSEED=0 PYTHONDONTWRITEBYTECODE=1 /venv/bin/python -m harness.selftest
