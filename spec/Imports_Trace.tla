--------------------------- MODULE Imports_Trace ---------------------------
(* Judges recorded lookups through import chains: the case (entry, spellings, fault) is re-resolved with       *)
(* Imports!Target and compared with what the real code returned (planted value = path of the file reached).    *)
EXTENDS Imports, IOUtils

Cases == ndJsonDeserialize(IOEnv.TRACE_FILE)
N == Len(Cases)
VARIABLE tid

RECURSIVE Resolve(_, _, _)
Resolve(file, ch, i) == IF i > Len(ch) THEN file ELSE Resolve(Target(file, ch[i].sp), ch, i + 1)

Clauses(c) ==
    LET start == Target(c.cwd \o <<"_">>, c.entrySp)
        final == Resolve(start, c.chain, 1) IN
    IF c.fault = "none" THEN
        (IF c.obs.res # "value" THEN {"C17_Raised:" \o c.obs.res}
         ELSE IF c.obs.val # final THEN {"C17_WrongFile"} ELSE {})
    ELSE LET want == CASE c.fault = "string" -> "TypeError" [] c.fault = "call" -> "TypeError"
                       [] c.fault = "angle" -> "ValueError" [] c.fault = "missing" -> "OSError" IN
         IF c.obs.res = "value" THEN {"C17_ResolvedInsteadOfError:" \o c.fault}
         ELSE IF want \in {c.obs.mro[i] : i \in 1..Len(c.obs.mro)} THEN {} ELSE {"C17_ErrorClass:" \o c.fault}

TInit == tid = 0 /\ cwd = <<>> /\ entry = <<>> /\ entrySp = <<>> /\ chain = <<>> /\ fault = "none" /\ stage = "trace"
TNext == /\ tid < N
         /\ PrintT(ToJson([id |-> Cases[tid + 1].id, bad |-> Clauses(Cases[tid + 1])]))
         /\ tid' = tid + 1 /\ UNCHANGED vars
=============================================================================
