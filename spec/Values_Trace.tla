----------------------------- MODULE Values_Trace -----------------------------
(* Judges recorded renderings of Python data (C13): case == [id, v (value), r (reading of the rendered text at the   *)
(* place the value was put), raised, valid (text parses), same_twice, stable].                                        *)
EXTENDS Values, Json, IOUtils
Cases == ndJsonDeserialize(IOEnv.TRACE_FILE)
N == Len(Cases)
VARIABLE tid
Clauses(c) ==
    IF c.raised THEN {"C13_Raised"}
    ELSE (IF ~c.valid THEN {"C13_Valid"} ELSE {}) \cup
         (IF c.valid /\ ~Reads(c.r, c.v) THEN {"C13_ReadBack:" \o WhyNot(c.r, c.v)} ELSE {}) \cup
         (IF ~c.same_twice THEN {"C13_Deterministic"} ELSE {}) \cup
         (IF c.valid /\ ~c.stable THEN {"C13_Stable"} ELSE {})
TInit == tid = 0
TNext == /\ tid < N
         /\ PrintT(ToJson([id |-> Cases[tid + 1].id, bad |-> Clauses(Cases[tid + 1])]))
         /\ tid' = tid + 1
=============================================================================
