INIT Init
NEXT Next
CONSTANTS
  MaxFrames = 2
  EmitCases = FALSE
  Extended = TRUE
INVARIANT Thm_LetBeatsWith
INVARIANT Thm_InnermostWins
INVARIANT Thm_PlainSetsInvisible
INVARIANT Thm_Total
INVARIANT Thm_CallSiteArg
CHECK_DEADLOCK FALSE
