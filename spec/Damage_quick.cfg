INIT DInitAll
NEXT DNextAll
CONSTANTS
  Mode = "single"
  Wide = FALSE
  DamageCtx <- QuickDamageCtx
  SoupLen = 2
ACTION_CONSTRAINT DEmit
CHECK_DEADLOCK FALSE
