INIT Init
NEXT Next
CONSTANTS
  MaxHops = 2
  Dirs <- QuickDirs
  Names <- QuickNames
  Cwds <- QuickCwds
INVARIANT C17_Relative
INVARIANT C17_EntrySpelling
ACTION_CONSTRAINT Emit
CHECK_DEADLOCK FALSE
