----------------------------- MODULE MC_Scoping -----------------------------
(* Every chain of at most MaxFrames frames over the four frame kinds, with the names a and b each absent /     *)
(* literal / reference to the other / inherited in every frame.  The chain is built frame by frame (AddFrame)  *)
(* from the outside in; every state is one test case.                                                          *)
EXTENDS Scoping, Json
CONSTANTS MaxFrames, EmitCases, Extended

Kinds == {"let", "rec", "set", "with"}
Lit(n, j) == [n |-> n, k |-> "lit", v |-> 10 * j + (IF n = "a" THEN 1 ELSE 2), m |-> ""]
RefB(n, m) == [n |-> n, k |-> "ref", v |-> 0, m |-> m]
InhB(n) == [n |-> n, k |-> "inh", v |-> 0, m |-> ""]
ChoicesA(j) == { <<>>, <<Lit("a", j)>>, <<RefB("a", "b")>>, <<InhB("a")>> }
ChoicesB(j) == { <<>>, <<Lit("b", j)>>, <<RefB("b", "a")>>, <<InhB("b")>> }
BindSets(j) == { x \o y : x \in ChoicesA(j), y \in ChoicesB(j) }
\* extended model: inherit (s) a, literal-set bindings, and a directly applied function as the outermost frame
SetB(j) == [n |-> "s", k |-> "setv", v |-> 0, m |-> "", sv |-> << [n |-> "a", k |-> "lit", v |-> 50 + j, m |-> ""] >>]
InhFrom(n) == [n |-> n, k |-> "inhfrom", v |-> 0, m |-> "s"]
Formal(n, d, a) == [n |-> n, k |-> "formal", v |-> d, m |-> "", arg |-> a]
ExtBinds(j) == { x \o y \o z : x \in {<<>>, <<Lit("a", j)>>, <<RefB("a", "b")>>, <<InhFrom("a")>>},
                                y \in {<<>>, <<Lit("b", j)>>, <<InhFrom("b")>>},
                                z \in {<<>>, <<SetB(j)>>} }
FormalBinds == { x \o y : x \in {<<>>, <<Formal("a", 91, 0)>>, <<Formal("a", 0, 92)>>, <<Formal("a", 91, 92)>>},
                          y \in {<<>>, <<Formal("b", 93, 0)>>, <<Formal("b", 93, 94)>>} }
\* a directly applied function as the INNERMOST frame whose argument is the name s (resolved at the call site)
FormalRef(n, d) == [n |-> n, k |-> "formal", v |-> d, m |-> "", arg |-> 0]
FormalRefBinds == { x \o y : x \in {<<>>, <<FormalRef("a", 91)>>, <<FormalRef("a", 0)>>}, y \in {<<>>, <<FormalRef("b", 93)>>} }

VARIABLE ch
Init == ch = <<>>
Closed == ch # <<>> /\ ArgName(ch[Len(ch)]) # ""
AddFrame == /\ Len(ch) < MaxFrames
            /\ ~Closed
            /\ IF ~Extended THEN \E k \in Kinds, b \in BindSets(Len(ch) + 1) : ch' = Append(ch, [kind |-> k, binds |-> b])
               ELSE \/ \E k \in Kinds, b \in ExtBinds(Len(ch) + 1) : ch' = Append(ch, [kind |-> k, binds |-> b])
                    \/ (ch = <<>> /\ \E b \in FormalBinds : ch' = <<[kind |-> "formals", binds |-> b]>>)
\* the call closes the chain (one frame beyond MaxFrames: outer binder + the call's own let + the call)
AddCall == /\ Extended /\ ch # <<>> /\ ~Closed /\ Len(ch) <= MaxFrames /\ ch[1].kind # "formals"
           /\ \E b \in FormalRefBinds : ch' = Append(ch, [kind |-> "formals", binds |-> b, argn |-> "s"])
Next == AddFrame \/ AddCall

L == Len(ch)
Thm_LetBeatsWith == C10_LetBeatsWith(ch, L, "a")
Thm_InnermostWins == C10_InnermostWins(ch, L, "a")
Thm_PlainSetsInvisible == C10_PlainSetsInvisible(ch, L, "a")
\* the argument of a call is resolved at the call site: the innermost let / rec frame around the call that binds s to a set
\* supplies the formal a (the member a of SetB(j) is 50 + j), whatever the frames further out bind
Thm_CallSiteArg ==
    (Closed /\ BindIdx(ch[L], "a") # 0) =>
        LET sb == {j \in 1..(L - 1) : Lexical(ch[j]) /\ BindIdx(ch[j], "s") # 0} IN
        sb # {} => LET j == CHOOSE x \in sb : \A y \in sb : x >= y
                       r == Resolve(ch, L, "a", {}) IN
                   r.ok /\ r.v = 50 + j /\ r.at = <<j, "s">>
\* bounded time: the recursion visits each binding at most once, hence a result always exists
Thm_Total == LET r == Resolve(ch, L, "a", {}) IN r.ok \/ r.why \in {"unbound", "cycle"}
Emit == EmitCases => PrintT(ToJson([ch |-> ch, res |-> Resolve(ch, L, "a", {})]))
=============================================================================
