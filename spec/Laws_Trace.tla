----------------------------- MODULE Laws_Trace -----------------------------
(***************************************************************************)
(* C19: algebraic laws of edits, judged on executions of the REAL code.     *)
(* The laws themselves are invariants of Edit.tla (C19_Idempotent,          *)
(* C19_SetRm, C19_Commute: TLC checks that the reference semantics satisfy  *)
(* them); here each law instance was executed twice by the real code (two   *)
(* operation sequences on the same seed) and TLC compares the outcomes.     *)
(* case == [id, law, canon (seed text is a fixed point of the round trip),  *)
(*          ok (all calls succeeded), t0, ta, tb (texts), d0, db (Docs)]     *)
(***************************************************************************)
EXTENDS Doc, Json, IOUtils

Cases == ndJsonDeserialize(IOEnv.TRACE_FILE)
N == Len(Cases)
VARIABLE tid

DocTree(d) == << Core(TreeOf(d.body.items)), [i \in 1..Len(d.layers) |-> Core(TreeOf(d.layers[i]))] >>

Clauses(c) ==
    IF ~c.ok THEN {}                                   \* a refused step: the law has no instance here (C05 / C08 judge refusals)
    ELSE CASE c.law = "idempotent" -> IF c.ta = c.tb THEN {} ELSE {"C19_Idempotent"}
           [] c.law = "idempotent_fresh" -> IF c.ta = c.tb THEN {} ELSE {"C19_Idempotent"}
           [] c.law = "set_rm" -> IF ~c.canon \/ c.tb = c.t0 THEN {} ELSE {"C19_SetRm"}
           [] c.law = "rm_set" -> IF DocTree(c.db) = DocTree(c.d0) THEN {} ELSE {"C19_RmSet"}
           [] c.law = "commute" -> IF c.ta = c.tb THEN {} ELSE {"C19_Commute"}

TInit == tid = 0
TNext == /\ tid < N
         /\ PrintT(ToJson([id |-> Cases[tid + 1].id, bad |-> Clauses(Cases[tid + 1])]))
         /\ tid' = tid + 1
=============================================================================
