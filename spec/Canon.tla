------------------------------- MODULE Canon -------------------------------
(***************************************************************************)
(* C02: documents in RFC-0166 canonical layout, built COMPOSITIONALLY.      *)
(* The state is an abstract canonical document of the package-file idiom;   *)
(* its layout decisions are part of the state (multi-line vs inline sets    *)
(* and lists, blank lines, own-line and end-of-line comments, header).      *)
(* Actions add one part at a time at the current CURSOR (a path of item     *)
(* indices into nested sets), so that e.g. "an inherit following a          *)
(* commented binding inside a nested set inside a let" is a reachable state *)
(* and not an example somebody has to think of.  Every reachable state is   *)
(* rendered by the canonical printer (harness/concretize.py) and the real   *)
(* parse/rebuild must reproduce it byte for byte.                            *)
(*                                                                          *)
(* doc == [head (wrapper shape), layers (0..1 let block), rec, items, foot] *)
(* item == [k : "b" | "i", name, val, lead, eol, blank]                      *)
(* val  == [k : "lit", text]  inline value from the palette                  *)
(*       | [k : "set", ml, rec, items] | [k : "list", ml, xs : Seq(text)]    *)
(*       | [k : "istr", lines : Seq(text)]                                   *)
(***************************************************************************)
EXTENDS Naturals, Sequences, FiniteSets, TLC, Json

CONSTANTS MaxItems, MaxDepth

Heads == {"none", "lam_id", "lam_formals_inline", "lam_formals_ml", "lam_formals_ml_cmt", "lam_formals_at", "call", "call_rec", "call_paren_lam",
          "lam_call", "with", "assert", "header_comment"}
Lits == {"1", "\"s\"", "x", "a.b", "f x", "./p.nix", "true", "x: x + 1", "with p; [ a b ]", "if c then a else b",
         "{ }", "[ ]", "a ++ b", "(f x)", "null", "1.5", "f { a = 1; }"}
\* quick palette (TLC enumerates the product; the harness varies identifiers / literals by seed)
QuickLits == {"1", "\"s\"", "a.b", "with p; [ a b ]", "f { a = 1; }"}
Trivia == { [lead |-> <<>>, eol |-> "", blank |-> FALSE], [lead |-> <<"L:about">>, eol |-> "", blank |-> FALSE],
            [lead |-> <<>>, eol |-> "L:why", blank |-> FALSE], [lead |-> <<>>, eol |-> "", blank |-> TRUE],
            [lead |-> <<"L:one", "L:two">>, eol |-> "", blank |-> TRUE], [lead |-> <<"B:block">>, eol |-> "", blank |-> FALSE] }

Lit(t) == [k |-> "lit", text |-> t]
SetV(ml, rc) == [k |-> "set", ml |-> ml, rec |-> rc, items |-> <<>>]
ListV(ml, xs) == [k |-> "list", ml |-> ml, xs |-> xs]
IStr(lines) == [k |-> "istr", lines |-> lines]
Values(lits) == {Lit(t) : t \in lits} \cup {SetV(TRUE, FALSE), SetV(FALSE, FALSE), SetV(TRUE, TRUE)}
                \cup {ListV(FALSE, <<"a">>), ListV(TRUE, <<"a", "b">>), ListV(TRUE, <<"\"s\"", "(f x)", "./p">>)}
                \cup {IStr(<<"line one", "  indented ${x}", "">>)}

B(n, v, t) == [k |-> "b", name |-> n, val |-> v, lead |-> t.lead, eol |-> t.eol, blank |-> t.blank]
I(names, src, t) == [k |-> "i", names |-> names, src |-> src, lead |-> t.lead, eol |-> t.eol, blank |-> t.blank]

VARIABLES doc, cursor, count
vars == <<doc, cursor, count>>

CONSTANTS LitSet,     \* which literal palette this model uses
          GapSet      \* which let-gap trivia variants the skeletons range over (all of LetGaps, or {"none"} for two-part documents)
\* layers: number of directly nested let blocks around the set; inc: an own-line comment follows every `in'
\* gap: own-line comments (with single blank lines) in the keyword-delimited gaps of the let blocks and of the head:
\*   "before_in"  a blank line and a comment between the last binding and `in'
\*   "two_before_in"  two comments separated by a blank line there
\*   "after_let"  a comment between `let' and the first binding
\*   "blank_after_in"  a blank line and a comment between `in' (or `with ..;' / `assert ..;') and what follows
LetGaps == {"none", "before_in", "two_before_in", "after_let", "blank_after_in"}
NoGaps == {"none"}
Skel(h, l, c, g, r) == [head |-> h, layers |-> l, inc |-> c, gap |-> g, rec |-> r, items |-> <<>>, foot |-> FALSE]
Skeletons == {Skel(h, 0, FALSE, "none", FALSE) : h \in Heads}
             \cup {Skel(h, 0, FALSE, "blank_after_in", FALSE) : h \in {"with", "assert"}}
             \cup {Skel(h, l, TRUE, "none", r) : h \in {"none", "lam_formals_ml", "lam_id"}, l \in {1, 2, 3}, r \in BOOLEAN}
             \cup {Skel(h, l, FALSE, g, r) : h \in {"none", "lam_formals_ml", "lam_id"}, l \in {1, 2, 3}, g \in GapSet, r \in BOOLEAN}
Init == /\ doc \in Skeletons
        /\ cursor = <<>> /\ count = 0

\* items at the cursor
RECURSIVE ItemsAt(_, _)
ItemsAt(items, cur) == IF cur = <<>> THEN items ELSE ItemsAt(items[cur[1]].val.items, Tail(cur))
RECURSIVE WithItemsAt(_, _, _)
WithItemsAt(items, cur, new) ==
    IF cur = <<>> THEN new
    ELSE [items EXCEPT ![cur[1]].val.items = WithItemsAt(@, Tail(cur), new)]

Names == <<"pname", "version", "src", "meta", "doCheck", "buildInputs", "passthru", "x">>
FreshName == Names[(count % Len(Names)) + 1]
InlineHere == cursor # <<>> /\ LET parentItems == ItemsAt(doc.items, SubSeq(cursor, 1, Len(cursor) - 1))
                                   p == parentItems[cursor[Len(cursor)]] IN ~p.val.ml

AddBinding == /\ count < MaxItems
              /\ \E v \in Values(LitSet), t \in Trivia :
                   /\ (InlineHere => (t = [lead |-> <<>>, eol |-> "", blank |-> FALSE] /\ v.k = "lit"))    \* inline sets hold plain bindings
                   /\ (Len(ItemsAt(doc.items, cursor)) = 0 => ~t.blank)                                     \* no blank line right after `{'
                   /\ doc' = [doc EXCEPT !.items = WithItemsAt(@, cursor, Append(ItemsAt(doc.items, cursor), B(FreshName, v, t)))]
              /\ count' = count + 1 /\ UNCHANGED cursor
AddAttrpath == /\ count < MaxItems /\ ~InlineHere
               /\ doc' = [doc EXCEPT !.items = WithItemsAt(@, cursor, Append(ItemsAt(doc.items, cursor),
                              B("env.NIX_CFLAGS", Lit("\"s\""), [lead |-> <<>>, eol |-> "", blank |-> FALSE])))]
               /\ count' = count + 1 /\ UNCHANGED cursor
AddInherit == /\ count < MaxItems /\ ~InlineHere
              /\ \E names \in {<<"lib">>, <<"a", "b">>}, src \in {"", "pkgs"}, t \in Trivia :
                   /\ (Len(ItemsAt(doc.items, cursor)) = 0 => ~t.blank)
                   /\ doc' = [doc EXCEPT !.items = WithItemsAt(@, cursor, Append(ItemsAt(doc.items, cursor), I(names, src, t)))]
              /\ count' = count + 1 /\ UNCHANGED cursor
\* descend into the set that was added last (the following parts go inside it)
Enter == /\ Len(cursor) < MaxDepth
         /\ LET its == ItemsAt(doc.items, cursor) IN
            /\ its # <<>> /\ its[Len(its)].k = "b" /\ its[Len(its)].val.k = "set"
            /\ cursor' = Append(cursor, Len(its))
         /\ UNCHANGED <<doc, count>>
Leave == /\ cursor # <<>> /\ cursor' = SubSeq(cursor, 1, Len(cursor) - 1) /\ UNCHANGED <<doc, count>>
AddFooter == /\ ~doc.foot /\ cursor = <<>> /\ doc' = [doc EXCEPT !.foot = TRUE] /\ UNCHANGED <<cursor, count>>
Next == AddBinding \/ AddAttrpath \/ AddInherit \/ Enter \/ Leave \/ AddFooter
Spec == Init /\ [][Next]_vars

\* every state is a document; print it once (INVARIANT; in -simulate mode the walked behaviours are printed)
Emit == PrintT(ToJson(doc))
EmitLarge == (count = MaxItems) => PrintT(ToJson(doc))
View == <<doc, cursor>>
=============================================================================
