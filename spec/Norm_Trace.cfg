INIT TInit
NEXT TNext
CHECK_DEADLOCK FALSE
