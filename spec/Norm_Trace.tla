---------------------------- MODULE Norm_Trace ----------------------------
(***************************************************************************)
(* C18 on texts that are not the rebuild of an input but the OUTPUT OF AN   *)
(* EDIT: the same declarative clauses as Fmt_Trace (spacing normal form of  *)
(* every gap, indentation of own-line comments and closing delimiters),     *)
(* without the transducer.                                                  *)
(* case == [id, out : Seq(item) (projection of the emitted text),           *)
(*          lines : Seq(line record)]                                       *)
(***************************************************************************)
EXTENDS Items, Json, IOUtils, TLC

Cases == ndJsonDeserialize(IOEnv.TRACE_FILE)
N == Len(Cases)
VARIABLE tid

Verdict(c) ==
    [ id |-> c.id,
      c18 |-> BadGapClauses(c.out) = {},
      c18_clauses |-> BadGapClauses(c.out),
      c18_at |-> FirstBadGap(c.out),
      c18_indent |-> C18_IndentOK(c.lines),
      c18_line |-> IF C18_IndentOK(c.lines) THEN [kind |-> "-", ind |-> 0, open_ind |-> 0] ELSE c.lines[FirstBadLine(c.lines)] ]

TInit == tid = 0
TNext == /\ tid < N
         /\ PrintT(ToJson(Verdict(Cases[tid + 1])))
         /\ tid' = tid + 1
=============================================================================
