------------------------------- MODULE Damage -------------------------------
(***************************************************************************)
(* Fault generator for C07 / C20: every program of Gen.tla (construct in a  *)
(* context, default layout) DAMAGED once: a chunk deleted, duplicated, a    *)
(* delimiter inserted in front of a chunk, or the text truncated after / in *)
(* the middle of a chunk; plus short token soups.  Whether a damaged text   *)
(* still parses is decided by tree-sitter in the harness (that IS the       *)
(* definition of `contains a syntax error').                                *)
(***************************************************************************)
EXTENDS Gen

CONSTANTS DamageCtx, SoupLen

QuickDamageCtx == {"top", "bind_ml"}
WideDamageCtx == {"top", "bind_ml", "list_elem", "let_body", "paren", "call_arg", "lam_body", "interp"}
Delims == {"{", "}", "[", "]", "(", ")", ";", "=", "\"", "''", "${", "in", ":", ",", ".", "@", "?", "let"}
SoupTokens == {"a", "1", "\"s\"", "{", "}", "[", "]", "(", ")", ";", "=", ":", ".", ",", "let", "in", "with", "if", "then", "else",
               "inherit", "rec", "++", "?", "@", "...", "#c\n", "/*", "''", "${"}

Chunks(toks) == {i \in 1..Len(toks) : toks[i] \notin {S, O}}

VARIABLES dstage, dd
dvars == <<dstage, dd>>

DInit == dstage = "start" /\ dd = [kind |-> "none"]
DPick == /\ dstage = "start"
         /\ \E c \in {x \in Contexts : x.name \in DamageCtx}, k \in Constructs :
               dd' = [kind |-> "program", ctx |-> c.name, pre |-> c.pre, post |-> c.post, con |-> k.name, toks |-> k.toks,
                      paren |-> k.lvl > c.lvl]
         /\ dstage' = "program"
DDamage == /\ dstage = "program"
           /\ \/ \E i \in Chunks(dd.toks), f \in {"delete", "duplicate", "cut_after", "cut_inside"} :
                    dd' = [dd EXCEPT !.kind = "damaged"] @@ [fault |-> f, at |-> i, delim |-> ""]
              \/ \E i \in Chunks(dd.toks), dl \in Delims :
                    dd' = [dd EXCEPT !.kind = "damaged"] @@ [fault |-> "insert", at |-> i, delim |-> dl]
           /\ dstage' = "done"
RECURSIVE Soups(_)
Soups(n) == IF n = 0 THEN {<<>>} ELSE LET P == Soups(n - 1) IN P \cup {Append(s, t) : s \in {x \in P : Len(x) = n - 1}, t \in SoupTokens}
DSoup == /\ dstage = "start"
         /\ \E s \in Soups(SoupLen) \ {<<>>} : dd' = [kind |-> "soup", toks |-> s]
         /\ dstage' = "done"
DNext == DPick \/ DDamage \/ DSoup
DEmit == dstage' = "done" => PrintT(ToJson(dd'))

\* the variables of Gen are unused here
DInitAll == DInit /\ stage = "unused" /\ d = [ctx |-> "", con |-> ""]
DNextAll == DNext /\ UNCHANGED vars
=============================================================================
