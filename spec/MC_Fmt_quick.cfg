INIT Init
NEXT NextFree
CONSTANTS
  MaxItems = 3
  WideGaps = FALSE
INVARIANT TypeOK
INVARIANT Inv_C01
INVARIANT Inv_C03_Once
INVARIANT Inv_C03_Sides
INVARIANT Inv_C18
CHECK_DEADLOCK FALSE
