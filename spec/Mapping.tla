------------------------------ MODULE Mapping ------------------------------
(***************************************************************************)
(* The dict-style API (C14): item get / set / delete on                      *)
(*   "doc"    the document (its attribute set),                              *)
(*   "nested" an attribute set reached through it (src[k1][k2]),             *)
(*   "scope"  the scope mapping of the set (innermost `let' layer).          *)
(* A mapping view of an item sequence: its keys are the first segments of    *)
(* the bindings (an attrpath family a.b / a.c is ONE key `a' whose value is  *)
(* the set of its members) and the inherited names.                          *)
(* Reference semantics: m[k] = v replaces the binding (a whole family, if k  *)
(* is one) in place or appends a fresh one; del m[k] removes it (all members *)
(* of a family); a missing key raises KeyError and changes nothing.          *)
(***************************************************************************)
EXTENDS Edit

MKeys(I) == {I[i].ap[1] : i \in {j \in 1..Len(I) : IsBind(I[j])}} \cup
            UNION {Range(I[i].names) : i \in {j \in 1..Len(I) : IsInh(I[j])}}
BKeys(I) == {I[i].ap[1] : i \in {j \in 1..Len(I) : IsBind(I[j])}}
Members(I, k) == {i \in 1..Len(I) : IsBind(I[i]) /\ I[i].ap[1] = k}
\* the value a lookup of k yields, as a Tree (paths relative to k)
MTree(I, k) == { << Drop(e[1], 1), e[2] >> : e \in {x \in TreeOf(I) : x[1] # <<>> /\ x[1][1] = k} }

MSetClean(I, k, v) ==
    LET m == Members(I, k) IN
    IF m = {} THEN Append(I, NewB(<<k>>, v))
    ELSE LET first == MinOf(m)
             idx == SetToSortSeq({i \in 1..Len(I) : i \notin m \/ i = first}, <) IN
         [j \in 1..Len(idx) |-> IF idx[j] = first THEN [I[first] EXCEPT !.ap = <<k>>, !.val = v] ELSE I[idx[j]]]
MDel(I, k) == LET idx == SetToSortSeq({i \in 1..Len(I) : i \notin Members(I, k)}, <) IN [j \in 1..Len(idx) |-> I[idx[j]]]

\* the value a lookup of k hands out: the explicit binding's value, or the merged set of an attrpath family
MValue(I, k) ==
    LET m == Members(I, k) IN
    IF \E i \in m : Len(I[i].ap) = 1 THEN I[CHOOSE i \in m : Len(I[i].ap) = 1].val
    ELSE LET idx == SetToSortSeq(m, <) IN SetV(TRUE, [j \in 1..Len(idx) |-> [I[idx[j]] EXCEPT !.ap = Drop(@, 1)]])
\* a key that is an inherited name, or one root written both explicitly and through attrpath entries: what a
\* lookup hands out is not prescribed
PlainKey(I, k) == LET m == Members(I, k) IN m # {} /\ ((\A i \in m : Len(I[i].ap) = 1) \/ (\A i \in m : Len(I[i].ap) > 1))

\* surfaces
SurfaceItems(d, s) ==
    IF s.kind = "doc" THEN d.body.items
    ELSE IF s.kind = "scope" THEN (IF d.layers = <<>> THEN <<>> ELSE d.layers[Len(d.layers)])
    ELSE LET i == MinOf(Exact(d.body.items, <<s.via>>)) IN d.body.items[i].val.items
SurfaceOK(d, s) ==
    s.kind \in {"doc", "scope"} \/
    (Exact(d.body.items, <<s.via>>) # {} /\ IsSet(d.body.items[MinOf(Exact(d.body.items, <<s.via>>))].val))
WithSurface(d, s, J) ==
    IF s.kind = "doc" THEN [d EXCEPT !.body.items = J]
    ELSE IF s.kind = "scope" THEN
        (IF d.layers = <<>> THEN (IF J = <<>> THEN d ELSE [d EXCEPT !.layers = <<J>>])
         ELSE IF J = <<>> THEN [d EXCEPT !.layers = SubSeq(@, 1, Len(@) - 1)]
         ELSE [d EXCEPT !.layers[Len(d.layers)] = J])
    ELSE LET i == MinOf(Exact(d.body.items, <<s.via>>)) IN [d EXCEPT !.body.items[i].val.items = J]

MOps(d) ==
    LET surfaces == {[kind |-> "doc", via |-> ""], [kind |-> "scope", via |-> ""]} \cup
                    {[kind |-> "nested", via |-> k] : k \in MKeys(d.body.items)} IN
    UNION { LET I == IF SurfaceOK(d, s) THEN SurfaceItems(d, s) ELSE <<>> IN
            \* (an inherited name is readable, but writing / deleting it through the mapping is left to C11)
            { [m |-> f, s |-> s, k |-> k, v |-> v] : f \in {"get", "set", "del"}, k \in BKeys(I) \cup {"zz"},
                                                      v \in {IntV(7), SetV(FALSE, <<B(<<"k">>, IntV(7))>>)} }
            \* m[dest] = m[src]: hand a looked-up value back to the mapping (dest = src: re-assignment; dest fresh: copy)
            \cup UNION { { [m |-> "copy", s |-> s, k |-> dest, v |-> [k |-> "from", n |-> src]] : dest \in {src, "yy"} }
                         : src \in BKeys(I) \cup {"zz"} }
          : s \in surfaces }

\* a nested surface reached through an attrpath FAMILY root (src["f"] for f.x / f.y) is a synthesized view: the
\* properties do not say how writes through it are stored, so such operations are left unspecified
ViaFamily(d, s) == s.kind = "nested" /\ Exact(d.body.items, <<s.via>>) = {} /\ Members(d.body.items, s.via) # {}
MApply(d, o) ==
    IF ViaFamily(d, o.s) THEN [doc |-> d, res |-> "unspecified"]
    ELSE IF ~SurfaceOK(d, o.s) THEN [doc |-> d, res |-> "raises"]             \* assigning / reading into a non-mapping value
    ELSE LET I == SurfaceItems(d, o.s) IN
         IF o.m = "set" THEN [doc |-> WithSurface(d, o.s, MSetClean(I, o.k, o.v)), res |-> "ok"]
         ELSE IF o.m = "copy" THEN
             (IF o.v.n \notin MKeys(I) THEN [doc |-> d, res |-> "KeyError"]
              ELSE IF ~PlainKey(I, o.v.n) THEN [doc |-> d, res |-> "unspecified"]
              ELSE [doc |-> WithSurface(d, o.s, MSetClean(I, o.k, MValue(I, o.v.n))), res |-> "ok"])
         ELSE IF o.k \notin MKeys(I) THEN [doc |-> d, res |-> "KeyError"]
         ELSE IF o.m = "get" THEN [doc |-> d, res |-> "ok"]
         ELSE [doc |-> WithSurface(d, o.s, MDel(I, o.k)), res |-> "ok"]

MDo(o) == LET a == MApply(doc, o) IN
          /\ doc' = a.doc /\ n' = n + 1
          /\ last' = [f |-> o.m, s |-> o.s, k |-> o.k, v |-> o.v, res |-> a.res, pre |-> doc]
          /\ hist' = [hist EXCEPT !.steps = Append(@, [op |-> o, res |-> a.res, post |-> a.doc])]
MNext == n < MaxDepth /\ \E o \in MOps(doc) : MDo(o)
MInit == Init

\* dictionary laws of the reference semantics
MStepped == last.f \in {"get", "set", "del", "copy"}
PostIm == IF SurfaceOK(doc, last.s) THEN SurfaceItems(doc, last.s) ELSE <<>>
PreIm == IF SurfaceOK(last.pre, last.s) THEN SurfaceItems(last.pre, last.s) ELSE <<>>
C14_SetGet == (MStepped /\ last.f = "set" /\ last.res = "ok") => MTree(PostIm, last.k) = ValTree(last.v)
C14_CopyGet == (MStepped /\ last.f = "copy" /\ last.res = "ok") => MTree(PostIm, last.k) = MTree(PreIm, last.v.n)
C14_DelGet == (MStepped /\ last.f = "del" /\ last.res = "ok") => last.k \notin MKeys(PostIm)
C14_OthersUntouched == (MStepped /\ last.res = "ok") =>
    \A k \in (MKeys(PreIm) \cup MKeys(PostIm)) \ {last.k} : MTree(PostIm, k) = MTree(PreIm, k) /\ (k \in MKeys(PreIm) <=> k \in MKeys(PostIm))
C14_MissingKey == (MStepped /\ last.res # "ok") => doc = last.pre
MEmit == PrintT(ToJson([pre |-> doc, op |-> [m |-> last'.f, s |-> last'.s, k |-> last'.k, v |-> last'.v], res |-> last'.res, post |-> doc']))
MEmitHist == (n = MaxDepth) => PrintT(ToJson(hist))
=============================================================================
