-------------------------------- MODULE Cli --------------------------------
(***************************************************************************)
(* The command line `nima test | set | rm' as a state machine over ONE     *)
(* file that is repeatedly rewritten by redirecting stdout over it          *)
(* (`nima set .. -f f > f').  The abstract file keeps what C16 talks about: *)
(*   err   : the text has a syntax error                                    *)
(*   fix   : the text is a fixed point of parse/rebuild                     *)
(*   nl    : number of trailing newlines (0..3)                             *)
(* The library edit is abstract (Doc/Edit specify it); what matters here is *)
(* how the CLI turns the library's answer into stdout / exit status.        *)
(* AlwaysTerminate = TRUE models the wrong design `print(text)' (a line     *)
(* terminator added unconditionally); TLC refutes C16_NewlineStable for it. *)
(***************************************************************************)
EXTENDS Naturals, Sequences, TLC

CONSTANTS AlwaysTerminate, MaxRuns

VARIABLES file, out, status, runs
vars == <<file, out, status, runs>>

Files == [err : BOOLEAN, fix : BOOLEAN, nl : 0..3]
Init == file \in {f \in Files : f.err => ~f.fix} /\ out = [kind |-> "none", nl |-> 0] /\ status = 0 /\ runs = 0

\* nima test
TestVerdict(f) == IF ~f.err /\ f.fix THEN [kind |-> "OK", status |-> 0] ELSE [kind |-> "Fail", status |-> 1]
RunTest == /\ runs < MaxRuns
           /\ out' = [kind |-> TestVerdict(file).kind, nl |-> 1] /\ status' = TestVerdict(file).status
           /\ runs' = runs + 1 /\ UNCHANGED file

\* the library's answer to an edit: either a text (with its own trailing newlines) or an exception
LibAnswers(f) == IF f.err THEN {[ok |-> FALSE, nl |-> 0]}
                 ELSE {[ok |-> FALSE, nl |-> 0]} \cup {[ok |-> TRUE, nl |-> f.nl]}   \* an edit keeps the file's final newlines
Terminated(n) == IF AlwaysTerminate THEN (IF n < 3 THEN n + 1 ELSE 3) ELSE (IF n = 0 THEN 1 ELSE n)
RunEdit == /\ runs < MaxRuns
           /\ \E a \in LibAnswers(file) :
                IF a.ok THEN out' = [kind |-> "text", nl |-> Terminated(a.nl)] /\ status' = 0
                ELSE out' = [kind |-> "empty", nl |-> 0] /\ status' \in {1, 2}
           /\ runs' = runs + 1 /\ UNCHANGED file

\* `> file' : the shell truncates the file and stores stdout in it (only meaningful after a successful edit)
Redirect == /\ out.kind = "text" /\ status = 0
            /\ file' = [err |-> FALSE, fix |-> TRUE, nl |-> out.nl]     \* C06: edit output is a fixed point
            /\ out' = [kind |-> "none", nl |-> 0] /\ UNCHANGED <<status, runs>>

Next == RunTest \/ RunEdit \/ Redirect
Spec == Init /\ [][Next]_vars

\* C16 on the model
C16_ErrorSilent == status # 0 => out.kind \in {"empty", "Fail", "none"}
C16_NewlineStable == [][(file.nl = 1 /\ ~file.err) => file'.nl = 1]_vars
C16_TestAcceptsEditOutput == (out.kind = "OK") => (~file.err /\ file.fix)
=============================================================================
