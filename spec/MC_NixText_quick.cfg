INIT Init
NEXT Next
CONSTANTS
  MaxName = 2
  MaxText = 3
  MaxSegs = 2
  EmitCases = FALSE
INVARIANT C12_SplitAtDots
INVARIANT C12_RoundTrip
INVARIANT MachineIsFunction
CHECK_DEADLOCK FALSE
