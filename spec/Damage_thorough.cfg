INIT DInitAll
NEXT DNextAll
CONSTANTS
  Mode = "single"
  Wide = FALSE
  DamageCtx <- WideDamageCtx
  SoupLen = 3
ACTION_CONSTRAINT DEmit
CHECK_DEADLOCK FALSE
