INIT Init
NEXT Next
CONSTANTS
  MaxStr = 3
  Deep = TRUE
INVARIANT Lemma_EscapeDecode
INVARIANT Emit
CHECK_DEADLOCK FALSE
