-------------------------------- MODULE Fmt --------------------------------
(***************************************************************************)
(* The formatter  rebuild o parse  as a STREAM TRANSDUCER over Items.       *)
(*                                                                          *)
(* Operational part (variables inp, pt, pc, out): the transducer reads the  *)
(* code tokens and the comments of `inp' with two cursors and appends       *)
(* (gap, item) pairs to `out'.  Its behaviours for a given `inp' are        *)
(* exactly the outputs that C01 / C03 / C18 (and, in canonical mode, C02)   *)
(* allow:                                                                   *)
(*   - code tokens keep their order; the only token-level changes are the   *)
(*     three NAMED actions NormalizeInt, ElideEmptyLet, AddTrailingComma;   *)
(*   - comments keep their order, each is emitted exactly once, and a       *)
(*     comment never crosses a solid token (identifier, literal, keyword,   *)
(*     operator) - it may cross delimiters;                                 *)
(*   - every emitted gap is in spacing normal form.                         *)
(*                                                                          *)
(* Declarative part: the clauses C01_.. C03_.. C18_.. as predicates over    *)
(* (inp, out).  TLC checks on the bounded model (MC_Fmt) that every         *)
(* completed behaviour of the transducer satisfies every clause, and        *)
(* Fmt_Trace judges recorded implementation executions with both.           *)
(***************************************************************************)
EXTENDS Items, SequencesExt, TLC

(* Actions are parameterised by GC(_): the set of gaps the transducer may    *)
(* choose from, given the output so far.  Model: a small alphabet of gaps;  *)
(* canonical mode (C02): the gap found at the same place of the input;      *)
(* trace validation: the gap that was observed.                             *)

VARIABLES inp,   \* the input stream (fixed during a behaviour)
          dec,   \* the transducer's reading of inp (fixed): tokens, comments, ordering constraints
          pt,    \* cursor over the code tokens of inp
          pc,    \* cursor over the comments of inp
          out,   \* output emitted so far
          addc   \* TRUE iff the last emitted token is a trailing comma added by the formatter
vars == <<inp, dec, pt, pc, out, addc>>

Count(s, P(_), upto) == Cardinality({i \in 1..upto : P(s[i])})
Positions(s, P(_)) == LET idx == {i \in 1..Len(s) : P(s[i])} IN SetToSortSeq(idx, <)

\* ti / ci : code tokens / comments of s;   cbt[k] : comments that precede token k;
\* sbt[k] : solid tokens that precede token k (k up to Len(ti)+1);  sbc[k] : solid tokens that precede comment k
Decode(s) ==
    LET tp == Positions(s, IsTok)  cp == Positions(s, IsCmt) IN
    [ ti  |-> [k \in 1..Len(tp) |-> s[tp[k]]],
      ci  |-> [k \in 1..Len(cp) |-> s[cp[k]]],
      cbt |-> [k \in 1..Len(tp) |-> Count(s, IsCmt, tp[k])],
      sbt |-> [k \in 1..Len(tp) + 1 |-> IF k <= Len(tp) THEN Count(s, IsSolid, tp[k] - 1) ELSE Count(s, IsSolid, Len(s))],
      sbc |-> [k \in 1..Len(cp) |-> Count(s, IsSolid, cp[k])] ]

TI == dec.ti
CI == dec.ci

LastItem(o) == IF o = <<>> THEN Bof ELSE o[Len(o)]
RECURSIVE LastTokFrom(_, _)
LastTokFrom(o, i) == IF i = 0 THEN Bof ELSE IF IsTok(o[i]) THEN o[i] ELSE LastTokFrom(o, i - 1)
LastTok(o)  == LastTokFrom(o, Len(o))

InitWith(Inputs) == /\ inp \in Inputs
                    /\ dec = Decode(inp)
                    /\ pt = 1 /\ pc = 1 /\ out = <<>> /\ addc = FALSE

\* the gap emitted in front of item x
GapFor(GC(_), x) == {g \in GC(out) : NormalGap(g, LastItem(out), x)}

Emit(g, x) == out' = out \o <<g, x>>

TokReady == /\ pt <= Len(TI)
            /\ IsSolid(TI[pt]) => pc > dec.cbt[pt]

CopyToken(GC(_)) ==
    /\ TokReady
    /\ \E g \in GapFor(GC, TI[pt]) : (addc => g.nl >= 1) /\ Emit(g, TI[pt])
    /\ pt' = pt + 1 /\ addc' = FALSE /\ UNCHANGED <<inp, dec, pc>>

\* an integer literal may lose leading zeros (value preserved: n is the value)
NormalizeInt(GC(_)) ==
    /\ TokReady /\ TI[pt].c = "int" /\ TI[pt].s # TI[pt].n
    /\ LET x == [TI[pt] EXCEPT !.s = TI[pt].n] IN \E g \in GapFor(GC, x) : Emit(g, x)
    /\ pt' = pt + 1 /\ addc' = FALSE /\ UNCHANGED <<inp, dec, pc>>

\* a binding-less `let in' wrapper may be elided
ElideEmptyLet ==
    /\ pt + 1 <= Len(TI)
    /\ TI[pt].c = "kw" /\ TI[pt].s = "let" /\ TI[pt+1].c = "kw" /\ TI[pt+1].s = "in"
    /\ pc > dec.cbt[pt + 1]
    /\ pt' = pt + 2 /\ UNCHANGED <<inp, dec, pc, out, addc>>

IsFormalsClose(ts, k) == /\ k <= Len(ts) /\ ts[k].s = "}" /\ ts[k].c = "dl"
                         /\ k + 1 <= Len(ts) /\ ts[k+1].s \in {":", "@"}
Comma == [k |-> "t", c |-> "dl", s |-> ",", n |-> ","]

\* a trailing comma may be added to a multi-line formals list
\* (multi-line: the closing brace that follows must start a new line - see CopyToken)
AddTrailingComma(GC(_)) ==
    /\ IsFormalsClose(TI, pt) /\ pt > 1 /\ TI[pt-1].s \notin {",", "{"}
    /\ LastTok(out).k = "t" /\ LastTok(out).s # "," /\ ~addc
    /\ \E g \in GapFor(GC, Comma) : g.nl = 0 /\ Emit(g, Comma)
    /\ addc' = TRUE /\ UNCHANGED <<inp, dec, pt, pc>>

CopyComment(GC(_)) ==
    /\ pc <= Len(CI)
    /\ dec.sbt[pt] >= dec.sbc[pc]          \* never jumps ahead of a solid token
    /\ \E g \in GapFor(GC, CI[pc]) : Emit(g, CI[pc])
    /\ pc' = pc + 1 /\ UNCHANGED <<inp, dec, pt, addc>>

Consumed == pt = Len(TI) + 1 /\ pc = Len(CI) + 1
Complete == Consumed /\ out # <<>> /\ IsGap(LastItem(out))

Finish(GC(_)) ==
    /\ Consumed /\ ~IsGap(LastItem(out)) /\ ~addc
    /\ \E g \in GC(out) : NormalGap(g, LastItem(out), Eof) /\ out' = Append(out, g)
    /\ UNCHANGED <<inp, dec, pt, pc, addc>>

NextWith(GC(_)) == \/ CopyToken(GC) \/ NormalizeInt(GC) \/ ElideEmptyLet
                   \/ AddTrailingComma(GC) \/ CopyComment(GC) \/ Finish(GC)

-----------------------------------------------------------------------------
(* Declarative clauses over a pair of streams.                              *)

\* drop binding-less `let in' pairs and formals trailing commas, normalise integers
\* (an elided pair may expose another one - `let let in in' -, so the reduction works on a stack: an `in' that
\*  meets a `let' on top of the stack cancels it)
RECURSIVE CanonFrom(_, _, _)
CanonFrom(ts, k, acc) ==
    IF k > Len(ts) THEN acc
    ELSE IF ts[k].c = "kw" /\ ts[k].s = "in" /\ acc # <<>> /\ acc[Len(acc)] = "let"
         THEN CanonFrom(ts, k + 1, SubSeq(acc, 1, Len(acc) - 1))
    ELSE IF ts[k].s = "," /\ ts[k].c = "dl" /\ IsFormalsClose(ts, k + 1)
         THEN CanonFrom(ts, k + 1, acc)
    ELSE CanonFrom(ts, k + 1, Append(acc, ts[k].n))
CanonToks(s) == CanonFrom(Toks(s), 1, <<>>)

C01_TokensPreserved(i, o) == CanonToks(i) = CanonToks(o)

CmtKeys(s) == Map(Cmts(s), CmtKey)
C03_EachOnceInOrder(i, o) == CmtKeys(i) = CmtKeys(o)

\* comments and solid tokens (after the let-in normalisation), in order
\* item indices of the `let' / `in' keywords of binding-less let wrappers (nested ones included: stack discipline,
\* st holds the item index of every pending token, 0 for a token that is not `let')
RECURSIVE ElidedFrom(_, _, _, _)
ElidedFrom(s, k, st, el) ==
    IF k > Len(s) THEN el
    ELSE IF ~IsTok(s[k]) THEN ElidedFrom(s, k + 1, st, el)
    ELSE IF s[k].c = "kw" /\ s[k].s = "in" /\ st # <<>> /\ st[Len(st)] # 0
         THEN ElidedFrom(s, k + 1, SubSeq(st, 1, Len(st) - 1), el \cup {st[Len(st)], k})
    ELSE IF s[k].c = "kw" /\ s[k].s = "let" THEN ElidedFrom(s, k + 1, Append(st, k), el)
    ELSE ElidedFrom(s, k + 1, Append(st, 0), el)
RECURSIVE SolidFrom(_, _, _)
SolidFrom(s, k, el) ==
    IF k > Len(s) THEN <<>>
    ELSE IF IsCmt(s[k]) THEN <<"c:" \o s[k].s>> \o SolidFrom(s, k + 1, el)
    ELSE IF IsSolid(s[k]) /\ k \notin el THEN <<"t:" \o s[k].n>> \o SolidFrom(s, k + 1, el)
    ELSE SolidFrom(s, k + 1, el)
SolidView(s) == SolidFrom(s, 1, ElidedFrom(s, 1, <<>>, {}))
C03_Sides(i, o) == SolidView(i) = SolidView(o)

C18_Normal(o) == AllGapsNormal(o)

\* C06 precondition: every comment sits alone on a line or at the end of a line
LineLevelComments(s) ==
    \A i \in 1..Len(s) : IsCmt(s[i]) => (i = Len(s) \/ (IsGap(s[i+1]) /\ (s[i+1].nl >= 1 \/ i + 1 = Len(s))))

-----------------------------------------------------------------------------
(* Invariants of the bounded model: the operational transducer implies      *)
(* the declarative clauses.                                                 *)
Inv_C01 == Complete => C01_TokensPreserved(inp, out)
Inv_C03_Once == Complete => C03_EachOnceInOrder(inp, out)
Inv_C03_Sides == Complete => C03_Sides(inp, out)
Inv_C18 == Complete => C18_Normal(out)
\* every input can be completed (the identity behaviour always exists for normal-form input)
TypeOK == pt \in 1..Len(TI) + 1 /\ pc \in 1..Len(CI) + 1
=============================================================================
