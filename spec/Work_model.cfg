INIT Init
NEXT Next
CONSTANTS
  MaxPeriod = 3
  ModelKinds = {"lam", "set", "list"}
  D = 12
INVARIANT TestSeparates
CHECK_DEADLOCK FALSE
