--------------------------- MODULE NixText_Trace ---------------------------
(***************************************************************************)
(* Judges recorded executions of  set / set again / rm  with a path text    *)
(* against NixText: the tokenizer decides acceptance and the segment names, *)
(* NixDecode reads the attribute tokens that the real code wrote.           *)
(* case == [id, text, res, raw (attribute tokens of the written chain),     *)
(*          res2, raw2, n2 (definitions per level after a second set),      *)
(*          v2ok, res3, gone3, alt (same name spelled the other way in the  *)
(*          file): altres, altdefs]                                         *)
(***************************************************************************)
EXTENDS NixText, Json, IOUtils

Cases == ndJsonDeserialize(IOEnv.TRACE_FILE)
N == Len(Cases)
VARIABLE tid

Decoded(raw) == [i \in 1..Len(raw) |-> NixDecode(raw[i])]
AnyLive(raw) == \E i \in 1..Len(raw) : NixLive(raw[i])

Clauses(c) ==
    LET t == Tokenize(c.text) IN
    IF t.e # "" THEN (IF c.res = "ValueError" THEN {} ELSE {"C12_Reject:" \o t.e})
    ELSE
      (IF c.res # "ok" THEN {"C12_Accept"} ELSE
        (IF Decoded(c.raw) # t.s THEN {"C12_Written"} ELSE {}) \cup
        (IF AnyLive(c.raw) THEN {"C12_LiveInterpolation"} ELSE {}) \cup
        (IF \E i \in 1..Len(c.raw) : c.raw[i] \in Keywords THEN {"C12_KeywordBare"} ELSE {}) \cup
        (IF c.res2 # "ok" \/ Decoded(c.raw2) # t.s \/ ~c.v2ok THEN {"C12_SameBinding"} ELSE {}) \cup
        (IF c.res2 = "ok" /\ c.n2 # 1 THEN {"C12_OneAttribute"} ELSE {}) \cup
        (IF c.res3 # "ok" \/ ~c.gone3 THEN {"C12_RmFinds"} ELSE {}) \cup
        (IF c.alt /\ (c.altres # "ok" \/ c.altdefs # 1) THEN {"C12_OneAttribute_alt"} ELSE {}))

TraceInit == tid = 0
TraceNext == /\ tid < N
             /\ PrintT(ToJson([id |-> Cases[tid + 1].id, bad |-> Clauses(Cases[tid + 1])]))
             /\ tid' = tid + 1

\* the variables of the tokenizer machine are unused here
Init == TraceInit /\ rest = <<>> /\ mode = "done" /\ buf = <<>> /\ segs = <<>> /\ qseg = FALSE /\ err = ""
Next == TraceNext /\ UNCHANGED tvars
=============================================================================
