-------------------------------- MODULE Gen --------------------------------
(***************************************************************************)
(* Program generator: the Nix expression grammar AS DATA.                   *)
(*                                                                          *)
(* A program descriptor is built by the actions                             *)
(*   PickContext -> PickConstruct -> FillGap (once or twice) -> PickLayout  *)
(* and every reachable `done' state is one test program.  A construct is a  *)
(* template: a sequence of text chunks in which "<_>" marks a gap slot that *)
(* needs at least a blank and "<~>" a gap slot whose neighbours may touch.  *)
(* A context is a (prefix, suffix) pair with the syntactic level its hole   *)
(* accepts; a construct of a higher level is parenthesised.                 *)
(* Levels: 0 select-level (atoms), 1 application, 2 operator, 3 expression. *)
(* The concretizer (harness/concretize.py) only joins strings: all          *)
(* knowledge about Nix syntax is here.                                      *)
(***************************************************************************)
EXTENDS Naturals, Sequences, FiniteSets, TLC, Json

CONSTANTS Mode,        \* "single": one filled slot;  "pairs": two filled slots
          Wide         \* TRUE: every filler in every context; FALSE: full fillers only in FullCtx

S == "<_>"
O == "<~>"

K(name, lvl, toks) == [name |-> name, lvl |-> lvl, toks |-> toks]

Constructs == {
  K("id", 0, <<"x">>),
  K("int0", 0, <<"007">>),
  K("float", 0, <<"1.5">>),
  K("float_e", 0, <<".5e3">>),
  K("bool", 0, <<"true">>),
  K("null", 0, <<"null">>),
  K("str", 0, <<"\"s ${", O, "b", O, "} t\\n \\${x}\"">>),
  K("str_plain", 0, <<"\"@U@ # not a comment\"">>),
  K("istr", 0, <<"''\n    foo ${", O, "b", O, "}\n    ''${bar} '''\n  ''">>),
  K("path", 0, <<"./p/q.nix">>),
  K("path_interp", 0, <<"./a/${", O, "x", O, "}/b">>),
  K("spath", 0, <<"<nixpkgs/lib>">>),
  K("hpath", 0, <<"~/p">>),
  K("abspath", 0, <<"/etc/nixos">>),
  K("uri", 0, <<"http://x.y/z">>),
  K("list0", 0, <<"[", O, "]">>),
  K("list1", 0, <<"[", O, "a", O, "]">>),
  K("list2", 0, <<"[", O, "a", S, "b", O, "]">>),
  K("list3", 0, <<"[", O, "1", S, "\"s\"", S, "c.d", O, "]">>),
  K("set0", 0, <<"{", O, "}">>),
  K("set1", 0, <<"{", O, "a", O, "=", O, "1", O, ";", O, "}">>),
  K("set2", 0, <<"{", O, "a", O, "=", O, "1", O, ";", O, "b", O, "=", O, "c", O, ";", O, "}">>),
  K("rec1", 0, <<"rec", O, "{", O, "a", O, "=", O, "1", O, ";", O, "}">>),
  K("set_ap", 0, <<"{", O, "a", O, ".", O, "b", O, "=", O, "1", O, ";", O, "a", O, ".", O, "c", O, "=", O, "2", O, ";", O, "}">>),
  K("set_q", 0, <<"{", O, "\"q r\"", O, "=", O, "1", O, ";", O, "}">>),
  K("set_dyn", 0, <<"{", O, "${", O, "x", O, "}", O, "=", O, "1", O, ";", O, "}">>),
  K("set_nested", 0, <<"{", O, "a", O, "=", O, "{", O, "b", O, "=", O, "1", O, ";", O, "}", O, ";", O, "}">>),
  K("inherit", 0, <<"{", O, "inherit", S, "a", S, "b", O, ";", O, "}">>),
  K("inherit_from", 0, <<"{", O, "inherit", O, "(", O, "s", O, ")", O, "a", S, "b", O, ";", O, "}">>),
  K("inherit_mix", 0, <<"{", O, "a", O, "=", O, "1", O, ";", O, "inherit", S, "b", O, ";", O, "}">>),
  K("legacy_let", 0, <<"let", O, "{", O, "body", O, "=", O, "1", O, ";", O, "}">>),
  K("select", 0, <<"a", O, ".", O, "b">>),
  K("select2", 0, <<"a", O, ".", O, "b", O, ".", O, "c">>),
  K("select_str", 0, <<"a", O, ".", O, "\"b c\"">>),
  K("select_dyn", 0, <<"a", O, ".", O, "${", O, "b", O, "}">>),
  K("select_or", 0, <<"a", O, ".", O, "b", S, "or", S, "c">>),
  K("paren", 0, <<"(", O, "a", O, ")">>),
  K("paren_op", 0, <<"(", O, "a", S, "+", S, "b", O, ")">>),
  K("apply", 1, <<"f", S, "a">>),
  K("apply2", 1, <<"f", S, "a", S, "b">>),
  K("apply_set", 1, <<"f", S, "{", O, "a", O, "=", O, "1", O, ";", O, "}">>),
  K("apply_list", 1, <<"f", S, "[", O, "a", O, "]">>),
  K("import", 1, <<"import", S, "./p.nix">>),
  K("import_arg", 1, <<"import", S, "./p.nix", S, "{", O, "}">>),
  K("not", 2, <<"!", O, "a">>),
  K("neg", 2, <<"-", O, "a">>),
  K("neg_path", 2, <<"-", S, "./p">>),
  K("neg_int", 2, <<"-", O, "1">>),
  K("neg_neg", 2, <<"-", S, "-", O, "a">>),
  K("not_not", 2, <<"!", O, "!", O, "a">>),
  K("minus_neg", 2, <<"a", S, "-", S, "-", O, "b">>),
  K("neg_select", 2, <<"-", O, "a", O, ".", O, "b">>),
  K("le", 2, <<"a", S, "<=", S, "b">>),
  K("gt", 2, <<"a", S, ">", S, "b">>),
  K("concat", 2, <<"a", S, "++", S, "b">>),
  K("update", 2, <<"a", S, "//", S, "b">>),
  K("plus", 2, <<"a", S, "+", S, "b">>),
  K("minus", 2, <<"a", S, "-", S, "b">>),
  K("times", 2, <<"a", S, "*", S, "b">>),
  K("div", 2, <<"a", S, "/", S, "b">>),
  K("eq", 2, <<"a", S, "==", S, "b">>),
  K("neq", 2, <<"a", S, "!=", S, "b">>),
  K("lt", 2, <<"a", S, "<", S, "b">>),
  K("ge", 2, <<"a", S, ">=", S, "b">>),
  K("and", 2, <<"a", S, "&&", S, "b">>),
  K("or", 2, <<"a", S, "||", S, "b">>),
  K("impl", 2, <<"a", S, "->", S, "b">>),
  K("chain_concat", 2, <<"a", S, "++", S, "b", S, "++", S, "c">>),
  K("chain_concat_ml", 2, <<"a\n++", S, "b\n++", S, "c">>),
  K("chain_update_ml", 2, <<"a\n//", S, "b\n//", S, "c\n//", S, "d">>),
  K("chain_mixed", 2, <<"a", S, "+", S, "b", S, "*", S, "c">>),
  K("chain_bool", 2, <<"a", S, "&&", S, "b", S, "||", S, "c">>),
  K("chain_update_call", 2, <<"a", S, "//", S, "f", S, "b">>),
  K("has_attr", 2, <<"a", S, "?", S, "b">>),
  K("has_attr_path", 2, <<"a", S, "?", S, "b", O, ".", O, "c">>),
  K("lam", 3, <<"x", O, ":", S, "x">>),
  K("lam2", 3, <<"x", O, ":", S, "y", O, ":", S, "x">>),
  K("formals0", 3, <<"{", O, "}", O, ":", S, "1">>),
  K("formals1", 3, <<"{", O, "a", O, "}", O, ":", S, "a">>),
  K("formals", 3, <<"{", O, "a", O, ",", O, "b", S, "?", S, "1", O, ",", O, "...", O, "}", O, ":", S, "a">>),
  K("formals_tc", 3, <<"{", O, "a", O, ",", O, "}", O, ":", S, "a">>),
  K("formals_ml", 3, <<"{\n  a", O, ",\n  b", S, "?", S, "1", O, "\n}", O, ":", S, "a">>),
  K("named_pre", 3, <<"args", O, "@", O, "{", O, "a", O, "}", O, ":", S, "a">>),
  K("named_post", 3, <<"{", O, "a", O, "}", O, "@", O, "args", O, ":", S, "a">>),
  K("if", 3, <<"if", S, "a", S, "then", S, "b", S, "else", S, "c">>),
  K("elif", 3, <<"if", S, "a", S, "then", S, "b", S, "else", S, "if", S, "c", S, "then", S, "d", S, "else", S, "e">>),
  K("with", 3, <<"with", S, "a", O, ";", S, "b">>),
  K("assert", 3, <<"assert", S, "a", O, ";", S, "b">>),
  K("let0", 3, <<"let", S, "in", S, "a">>),
  K("let0_let", 3, <<"let", S, "in", S, "let", S, "a", O, "=", O, "1", O, ";", S, "in", S, "a">>),
  K("let0_set", 3, <<"let", S, "in", S, "{", O, "a", O, "=", O, "1", O, ";", O, "}">>),
  K("let1", 3, <<"let", S, "a", O, "=", O, "1", O, ";", S, "in", S, "a">>),
  K("let2", 3, <<"let", S, "a", O, "=", O, "1", O, ";", S, "b", O, "=", O, "a", O, ";", S, "in", S, "b">>),
  K("let_inherit", 3, <<"let", S, "inherit", S, "a", O, ";", S, "in", S, "a">>),
  K("let_let", 3, <<"let", S, "a", O, "=", O, "1", O, ";", S, "in", S, "let", S, "b", O, "=", O, "2", O, ";", S, "in", S, "b">>),
  K("let3", 3, <<"let", S, "a", O, "=", O, "1", O, ";", S, "in", S, "let", S, "b", O, "=", O, "a", O, ";", S, "in", S, "let", S, "c", O, "=", O, "b", O, ";", S, "in", S, "c">>),
  K("let_set", 3, <<"let", S, "a", O, "=", O, "1", O, ";", S, "in", S, "{", O, "b", O, "=", O, "a", O, ";", O, "}">>),
  K("lam_set", 3, <<"{", O, "a", O, "}", O, ":", S, "{", O, "b", O, "=", O, "a", O, ";", O, "}">>),
  K("if_ml", 3, <<"if", S, "a", S, "then\n  b\nelse", S, "c">>),
  K("apply_lam", 1, <<"f", S, "(", O, "x", O, ":", S, "x", O, ")">>),
  K("list_nested", 0, <<"[", O, "[", O, "a", O, "]", S, "{", O, "}", O, "]">>),
  K("with_list", 3, <<"with", S, "p", O, ";", S, "[", O, "a", S, "b", O, "]">>)
}

C(name, pre, post, lvl) == [name |-> name, pre |-> pre, post |-> post, lvl |-> lvl]
Contexts == {
  C("top", "", "", 3),
  C("bind_ml", "{\n  v = ", ";\n}", 3),
  C("bind_inline", "{ v = ", "; }", 3),
  C("bind_2nd", "{\n  u = 1;\n  v = ", ";\n  w = 2;\n}", 3),
  C("list_elem", "[\n  z\n  ", "\n]", 0),
  C("let_bind", "let\n  v = ", ";\nin\nv", 3),
  C("let_body", "let\n  v = 1;\nin\n", "", 3),
  C("lam_body", "x: ", "", 3),
  C("call_arg", "f ", "", 0),
  C("formals_body", "{ p, q }:\n", "", 3),
  C("with_body_ml", "with p;\n", "", 3),
  C("formals_with", "{ p }:\nwith p;\n", "", 3),
  C("paren", "(", ")", 3),
  C("with_body", "with p; ", "", 3),
  C("assert_body", "assert c; ", "", 3),
  C("if_then", "if c then ", " else z", 3),
  C("if_else", "if c then z else ", "", 3),
  C("binop_rhs", "z ++ ", "", 1),
  C("formal_default", "{ v ? ", " }: v", 3),
  C("interp", "\"a${", "}b\"", 3),
  C("nested_bind", "{\n  u = {\n    v = ", ";\n  };\n}", 3)
}
FullCtx == {"top", "bind_ml"}

F(name, cls, text) == [name |-> name, cls |-> cls, text |-> text]
\* gap alphabet G: cls "ws" whitespace only, "lc" line-level comment(s), "ic" comment between tokens of a line
Fillers == {
  F("none", "ws", ""),
  F("sp", "ws", " "),
  F("sp3", "ws", "   "),
  F("tab", "ws", "\t"),
  F("nl", "ws", "\n"),
  F("nl_ind", "ws", "\n    "),
  F("blank", "ws", "\n\n"),
  F("blank2", "ws", "\n\n\n"),
  F("trail", "ws", "  \n"),
  F("eol", "lc", " # c1\n"),
  F("eol_blank", "lc", " # c1\n\n"),
  F("own_then_blank", "lc", "\n# c1\n\n"),
  F("blank_then_own", "lc", "\n\n# c1\n"),
  F("eol_own", "lc", " # c1\n# c2\n"),
  F("own", "lc", "\n# c1\n"),
  F("own2", "lc", "\n# c1\n# c2\n"),
  F("own_blank", "lc", "\n\n# c1\n\n"),
  F("blk_own", "lc", "\n/* c1 */\n"),
  F("doc_own", "lc", "\n/** d1 */\n"),
  F("blk_ml", "lc", "\n/*\n  m1\n  m2\n*/\n"),
  F("blk_eol", "lc", " /* c1 */\n"),
  F("blk_ml_tight", "lc", "\n/* m1\n   m2 */\n"),
  F("blk_ml_eol", "lc", " /* m1\n   m2 */\n"),
  F("blk_then_eol", "lc", " /* c1 */ # c2\n"),
  F("own_blk_then_eol", "lc", "\n/* c1 */ # c2\n"),
  F("inline", "ic", " /* c1 */ "),
  F("glued", "ic", "/* c1 */"),
  F("glued_left", "ic", "/* c1 */ "),
  F("glued_right", "ic", " /* c1 */"),
  F("blk_empty", "ic", " /**/ "),
  F("doc_empty_own", "lc", "\n/***/\n"),
  F("inline2", "ic", " /* c1 */ /* c2 */ "),
  F("utf8", "lc", "\n# @U@\n")
}
NarrowFillers == {"nl", "eol", "own", "inline", "sp3"}

SlotsOf(toks) == {i \in 1..Len(toks) : toks[i] \in {S, O}}
FillOK(toks, i, f) == f.name = "none" => toks[i] = O

Ambients == {"spaced", "compact", "lines"}
Ends == { [lead |-> "", trail |-> ""], [lead |-> "", trail |-> "\n"], [lead |-> "\n\n", trail |-> "\n"],
          [lead |-> "  ", trail |-> "  \n"], [lead |-> "# head\n", trail |-> "\n# foot\n"],
          [lead |-> "\n", trail |-> "\n\n\n"],
          [lead |-> "", trail |-> "\r\n\r\n"], [lead |-> "\r\n", trail |-> "\n\f\n"] }

VARIABLES stage, d
vars == <<stage, d>>

Init == stage = "start" /\ d = [ctx |-> "", con |-> ""]

PickContext == /\ stage = "start"
               /\ \E c \in Contexts : d' = [ctx |-> c.name, pre |-> c.pre, post |-> c.post, clvl |-> c.lvl, con |-> ""]
               /\ stage' = "ctx"

PickConstruct == /\ stage = "ctx"
                 /\ \E k \in Constructs :
                       d' = [d EXCEPT !.con = k.name] @@ [toks |-> k.toks, paren |-> k.lvl > d.clvl, fills |-> <<>>]
                 /\ stage' = "con"

FillerAllowed(f) == Wide \/ d.ctx \in FullCtx \/ f.name \in NarrowFillers

FillGap == /\ stage \in {"con", "fill1"}
           /\ (stage = "fill1" => Mode = "pairs")
           /\ \E i \in SlotsOf(d.toks), f \in Fillers :
                 /\ FillOK(d.toks, i, f) /\ FillerAllowed(f)
                 /\ \A j \in 1..Len(d.fills) : d.fills[j].slot < i
                 /\ d' = [d EXCEPT !.fills = Append(@, [slot |-> i, fill |-> f.name, cls |-> f.cls, text |-> f.text])]
           /\ stage' = IF stage = "con" THEN "fill1" ELSE "fill2"

\* no slot filled: the construct itself in each ambient layout and with each file lead / trail
PickLayout == /\ stage \in {"con", "fill1", "fill2"}
              /\ \E a \in Ambients, e \in Ends :
                    /\ (stage # "con" \/ d.ctx # "top") => (a = "spaced" /\ e = [lead |-> "", trail |-> "\n"])
                    /\ d' = d @@ [amb |-> a, lead |-> e.lead, trail |-> e.trail]
              /\ stage' = "done"

Next == PickContext \/ PickConstruct \/ FillGap \/ PickLayout
Spec == Init /\ [][Next]_vars

\* emission: every `done' state is printed once (ACTION_CONSTRAINT, evaluated on each generated transition)
EmitDone == stage' = "done" => PrintT(ToJson(d'))

\* the same for -simulate (random walks = random programs; two filled gaps in "pairs" mode)
EmitDoneInv == (stage = "done" /\ Len(d.fills) = 2) => PrintT(ToJson(d))

TypeOK == stage \in {"start", "ctx", "con", "fill1", "fill2", "done"}
=============================================================================
