INIT Init
NEXT NextFree
CONSTANTS
  MaxItems = 3
  WideGaps = FALSE
INVARIANT Wit_Comma
CHECK_DEADLOCK FALSE
