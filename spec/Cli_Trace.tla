----------------------------- MODULE Cli_Trace -----------------------------
(***************************************************************************)
(* Judges recorded invocations of the real `nima' (in-process main() and    *)
(* subprocesses) against Cli.tla.  A case is a CHAIN of invocations on one  *)
(* file; after a successful edit the file is replaced by stdout (redirect). *)
(* step == [cmd, chan, in_err, in_fix, in_nl,                               *)
(*          lib_ok (library call succeeded), lib_nl, out_is_lib (stdout =   *)
(*          library text), out_is_lib_nl (stdout = library text + "\n"),    *)
(*          out_kind ("OK"|"Fail"|"text"|"empty"|"other"), out_nl, status,  *)
(*          twin_same (the other channel gave the same stdout and status)]  *)
(***************************************************************************)
EXTENDS Naturals, Sequences, TLC, Json, IOUtils

Cases == ndJsonDeserialize(IOEnv.TRACE_FILE)
N == Len(Cases)
VARIABLES tid, l, nlok      \* nlok: the chain started with exactly one final newline and every edit so far succeeded

StepClauses(e, keep1) ==
    (IF e.cmd = "test" THEN
        (IF ~e.in_err /\ e.in_fix
            THEN (IF e.out_kind = "OK" /\ e.status = 0 THEN {} ELSE {"C16_TestOK"})
            ELSE (IF e.out_kind = "Fail" /\ e.status = 1 THEN {} ELSE {"C16_TestFail"}))
     ELSE
        (IF e.lib_ok THEN
            (IF e.status # 0 THEN {"C16_ExitZeroOnSuccess"} ELSE {}) \cup
            (IF (e.lib_nl >= 1 /\ e.out_is_lib) \/ (e.lib_nl = 0 /\ e.out_is_lib_nl) THEN {} ELSE {"C16_EmitsLibraryText"}) \cup
            (IF keep1 /\ e.out_nl # 1 THEN {"C16_NewlineStable"} ELSE {})
         ELSE
            (IF e.out_kind # "empty" THEN {"C16_ErrorSilent"} ELSE {}) \cup
            (IF e.status = 0 THEN {"C16_ErrorStatus"} ELSE {})))
    \cup (IF ~e.twin_same THEN {"C16_ChannelIndependent"} ELSE {})

Init == tid \in 1..N /\ l = 0 /\ nlok = (Cases[tid].steps[1].in_nl = 1 /\ ~Cases[tid].steps[1].in_err)
Next == /\ l < Len(Cases[tid].steps)
        /\ LET e == Cases[tid].steps[l + 1] IN
           /\ PrintT(ToJson([id |-> Cases[tid].id, l |-> l + 1, bad |-> StepClauses(e, nlok /\ e.in_nl = 1)]))
           /\ nlok' = (nlok /\ (e.cmd = "test" \/ e.lib_ok))
        /\ l' = l + 1 /\ UNCHANGED tid
=============================================================================
