INIT Init
NEXT NextFree
CONSTANTS
  MaxItems = 3
  WideGaps = FALSE
INVARIANT Wit_Elide
CHECK_DEADLOCK FALSE
