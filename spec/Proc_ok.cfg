SPECIFICATION Spec
CONSTANTS
  Threads = {1, 2}
  GapReads = 2
  SharedParser = FALSE
  GlobalBytes = FALSE
INVARIANT C15_Isolation
INVARIANT C15_ParserExclusive
INVARIANT EmitSched
CHECK_DEADLOCK FALSE
