-------------------------------- MODULE Doc --------------------------------
(***************************************************************************)
(* The abstract DOCUMENT that `set', `rm' and the mapping API act on, and   *)
(* the reference semantics of those operations (docs/cli.md, docs/api.md).  *)
(*                                                                          *)
(*  doc  == [ shape  : "ok" | "noneditable" | "error" | "empty",            *)
(*            wrap   : Seq(STRING)   wrappers, outermost first               *)
(*            layers : Seq(Seq(Item)) `let .. in' blocks directly around    *)
(*                                    the attribute set, OUTERMOST first     *)
(*            body   : Val (a set),                                          *)
(*            lead, trail : file-level comments, nl : final newlines ]       *)
(*  Item == binding [k |-> "b", ap : Seq(Name) AS WRITTEN (decoded names),  *)
(*                   val : Val, lead : Seq(CommentKey), eol : CommentKey,    *)
(*                   blank : BOOLEAN]                                        *)
(*        | inherit [k |-> "i", src, names, lead, eol, blank]                *)
(*  Val  == [k |-> "int", v] | [k |-> "ref", n] | [k |-> "opq", h]           *)
(*        | [k |-> "set", rec, ml, items : Seq(Item)]                        *)
(*                                                                          *)
(* Attribute paths are kept AS WRITTEN: `a.b = 1;' is ONE item with         *)
(* ap = <<"a","b">>, `a = { b = 1; };' is an item with ap = <<"a">> whose    *)
(* value is a set.  Both denote the same Tree.                               *)
(***************************************************************************)
EXTENDS Naturals, Sequences, FiniteSets, SequencesExt, TLC

IsSet(v)  == v.k = "set"
IsBind(x) == x.k = "b"
IsInh(x)  == x.k = "i"
ProperPrefix(p, q) == Len(p) < Len(q) /\ IsPrefix(p, q)
Drop(p, n) == SubSeq(p, n + 1, Len(p))
MinOf(S) == CHOOSE x \in S : \A y \in S : x <= y
MaxOf(S) == CHOOSE x \in S : \A y \in S : x >= y

EmptyMark == [k |-> "emptyset"]

-----------------------------------------------------------------------------
(* Tree: what Nix would evaluate - a set of <<path, leaf>> pairs.           *)
RECURSIVE TreeOf(_), ValTree(_)
ValTree(v) == IF IsSet(v) THEN (IF v.items = <<>> THEN {<< <<>>, EmptyMark >>} ELSE TreeOf(v.items))
              ELSE {<< <<>>, v >>}
ItemTree(x) == IF IsInh(x) THEN { << <<n>>, [k |-> "inh", src |-> x.src, n |-> n] >> : n \in Range(x.names) }
               ELSE { << x.ap \o e[1], e[2] >> : e \in ValTree(x.val) }
TreeOf(items) == UNION { ItemTree(items[i]) : i \in 1..Len(items) }
Core(T) == {e \in T : e[2] # EmptyMark}
Under(T, p) == {e \in T : IsPrefix(p, e[1])}

\* every definition (with multiplicity): sequence of [p : path, leaf : the value is not a set], in order
RECURSIVE DefRecs(_)
ItemDefRecs(x) == IF IsInh(x) THEN [i \in 1..Len(x.names) |-> [p |-> <<x.names[i]>>, leaf |-> TRUE]]
                  ELSE IF IsSet(x.val) /\ x.val.items # <<>>
                       THEN LET sub == DefRecs(x.val.items) IN [i \in 1..Len(sub) |-> [p |-> x.ap \o sub[i].p, leaf |-> sub[i].leaf]]
                       ELSE << [p |-> x.ap, leaf |-> ~IsSet(x.val)] >>
DefRecs(items) == IF items = <<>> THEN <<>> ELSE ItemDefRecs(items[1]) \o DefRecs(Tail(items))
DefsOf(items) == LET d == DefRecs(items) IN [i \in 1..Len(d) |-> d[i].p]
\* no attribute is defined twice: not the same path twice, and nothing below a path that holds a non-set value
\* (an explicit `a = { };' next to `a.b = ..;' merges in Nix and is no duplicate)
NoDuplicate(items) ==
    LET d == DefRecs(items) IN
    \A i, j \in 1..Len(d) : i # j =>
        /\ d[i].p # d[j].p
        /\ ~(d[i].leaf /\ ProperPrefix(d[i].p, d[j].p))

-----------------------------------------------------------------------------
(* Reference semantics of  set PATH VALUE  on one attribute set (items).    *)

Exact(I, p)   == {i \in 1..Len(I) : IsBind(I[i]) /\ I[i].ap = p}
Through(I, p) == {i \in 1..Len(I) : IsBind(I[i]) /\ ProperPrefix(I[i].ap, p)}
Beyond(I, p)  == {i \in 1..Len(I) : IsBind(I[i]) /\ ProperPrefix(p, I[i].ap)}
Family(I, p)  == {i \in 1..Len(I) : IsBind(I[i]) /\ Len(I[i].ap) > 1 /\ I[i].ap[1] = p[1]}
Inherited(I, p) == {i \in 1..Len(I) : IsInh(I[i]) /\ p[1] \in Range(I[i].names)}
\* the item through which p continues: longest written prefix
Via(I, p) == LET t == Through(I, p) IN CHOOSE i \in t : \A j \in t : Len(I[i].ap) >= Len(I[j].ap)

\* reasons a set is refused (document unchanged)
RECURSIVE SetRefusal(_, _)
SetRefusal(I, p) ==
    IF Beyond(I, p) # {} THEN "attrpath_root"                 \* p names an attrpath root / intermediate (also when an
                                                              \* explicit binding of the same name exists next to it)
    ELSE IF Exact(I, p) # {} THEN "none"
    ELSE IF Inherited(I, p) # {} /\ Len(p) > 1 THEN "non_set"
    ELSE IF Through(I, p) # {} THEN
        LET i == Via(I, p) IN
        IF ~IsSet(I[i].val) THEN "non_set"
        ELSE SetRefusal(I[i].val.items, Drop(p, Len(I[i].ap)))
    ELSE "none"

\* blank: a blank line precedes the item (its leading comments included); lblank: a blank line separates its leading
\* comments from the item itself
NewB(ap, v) == [k |-> "b", ap |-> ap, val |-> v, lead |-> <<>>, eol |-> "", blank |-> FALSE, lblank |-> FALSE]
RECURSIVE Nest(_, _, _)
Nest(p, v, ml) == IF Len(p) = 1 THEN NewB(p, v)
                  ELSE NewB(<<p[1]>>, [k |-> "set", rec |-> FALSE, ml |-> ml, items |-> <<Nest(Tail(p), v, ml)>>, dang |-> <<>>])

\* the reference result (one of the allowed ones; the relation below says what is allowed)
RECURSIVE SetIn(_, _, _, _)
SetIn(I, p, v, ml) ==
    IF Exact(I, p) # {} THEN LET i == MinOf(Exact(I, p)) IN [I EXCEPT ![i].val = v]
    ELSE IF Through(I, p) # {} THEN
        LET i == Via(I, p) IN
        [I EXCEPT ![i].val.items = SetIn(@, Drop(p, Len(I[i].ap)), v, I[i].val.ml)]
    ELSE IF Family(I, p) # {} THEN Append(I, NewB(p, v))      \* attrpath family: extended in attrpath form, last
    ELSE Append(I, Nest(p, v, ml))                            \* fresh binding goes last

-----------------------------------------------------------------------------
(* Reference semantics of  rm PATH.                                         *)
RECURSIVE RmRefusal(_, _)
RmRefusal(I, p) ==
    IF Exact(I, p) # {} /\ Beyond(I, p) # {} THEN "family"       \* explicit binding AND attrpath entries for one name
    ELSE IF Exact(I, p) # {} THEN "none"
    ELSE IF Through(I, p) # {} THEN
        LET i == Via(I, p) IN
        IF ~IsSet(I[i].val) THEN "non_set" ELSE RmRefusal(I[i].val.items, Drop(p, Len(I[i].ap)))
    ELSE IF Beyond(I, p) # {} THEN "family"                    \* attrpath root / intermediate: the reference raises
                                                              \* KeyError; removing the whole family is tolerated
    ELSE "missing"

RECURSIVE RmIn(_, _)
RmIn(I, p) ==
    IF Exact(I, p) # {} THEN RemoveAt(I, MinOf(Exact(I, p)))   \* an attrpath item disappears with its parents
    ELSE LET i == Via(I, p) IN [I EXCEPT ![i].val.items = RmIn(@, Drop(p, Len(I[i].ap)))]

-----------------------------------------------------------------------------
(* What a successful operation may do to an item sequence (C04 / C05).      *)

SameButVal(x, y) == IsBind(x) /\ IsBind(y) /\ x.ap = y.ap /\ x.lead = y.lead /\ x.eol = y.eol /\ x.blank = y.blank /\ x.lblank = y.lblank
\* an explicit parent that becomes (or stops being) empty may change between `{ }' and the multi-line form
SameShell(v, w) == IsSet(v) /\ IsSet(w) /\ v.rec = w.rec /\ (v.ml = w.ml \/ v.items = <<>> \/ w.items = <<>>)

\* C04 frame for `set PATH': every item except the addressed one is identical (attrpath as written, value,
\* comments, blank flag, position); the addressed item keeps everything but its value; a fresh binding is
\* appended last (in this set, or in the nested set the path runs through) without trivia of its own.
RECURSIVE SetFrame(_, _, _)
SetFrame(I, J, p) ==
    IF I = J THEN TRUE       \* nothing changed: trivially local (whether the edit took effect is C05's business)
    ELSE IF Exact(I, p) # {} THEN
        /\ Len(J) = Len(I)
        /\ \E i \in Exact(I, p) : /\ \A j \in 1..Len(I) : j # i => I[j] = J[j]
                                  /\ SameButVal(I[i], J[i])
    ELSE IF Through(I, p) # {} THEN
        LET i == Via(I, p) IN
        /\ Len(J) = Len(I)
        /\ \A j \in 1..Len(I) : j # i => I[j] = J[j]
        /\ SameButVal(I[i], J[i]) /\ SameShell(I[i].val, J[i].val)
        /\ SetFrame(I[i].val.items, J[i].val.items, Drop(p, Len(I[i].ap)))
    ELSE
        /\ Len(J) = Len(I) + 1 /\ SubSeq(J, 1, Len(I)) = I
        /\ IsBind(J[Len(J)]) /\ J[Len(J)].eol = "" /\ ~J[Len(J)].blank /\ ~J[Len(J)].lblank   \* only the binding line is inserted
                                                              \* (a comment that dangled before the closing brace now precedes it)

\* neighbours of a removed item may lose / gain only their `blank' flag
SameButBlank(x, y) == [x EXCEPT !.blank = FALSE, !.lblank = FALSE] = [y EXCEPT !.blank = FALSE, !.lblank = FALSE]
RECURSIVE RmFrame(_, _, _)
RmFrame(I, J, p) ==
    IF I = J THEN TRUE
    ELSE IF Exact(I, p) # {} THEN
        /\ Len(J) = Len(I) - 1
        \* (own-line comments between the removed item and its successor may go with it: whose they are is ambiguous)
        /\ \E i \in Exact(I, p) : \A j \in 1..Len(J) :
              IF j = i THEN SameButBlank([J[j] EXCEPT !.lead = <<>>], [I[j + 1] EXCEPT !.lead = <<>>])
              ELSE SameButBlank(J[j], IF j < i THEN I[j] ELSE I[j + 1])
    ELSE IF Through(I, p) # {} THEN
        LET i == Via(I, p) IN
        /\ Len(J) = Len(I)
        /\ \A j \in 1..Len(I) : j # i => I[j] = J[j]
        /\ SameButVal(I[i], J[i]) /\ SameShell(I[i].val, J[i].val)
        /\ RmFrame(I[i].val.items, J[i].val.items, Drop(p, Len(I[i].ap)))
    ELSE IF Beyond(I, p) # {} THEN       \* a whole attrpath family removed through its root (lenient: see RmRefusal)
        LET keep == SelectSeq(I, LAMBDA x : ~(IsBind(x) /\ ProperPrefix(p, x.ap))) IN
        Len(J) = Len(keep) /\ \A j \in 1..Len(J) : SameButBlank(J[j], keep[j])
    ELSE FALSE

\* C05 effect on the tree
SetEffect(I, J, p, v) ==
    Core(TreeOf(J)) = (Core(TreeOf(I)) \ Under(TreeOf(I), p)) \cup { << p \o e[1], e[2] >> : e \in Core(ValTree(v)) }
RmEffect(I, J, p) ==
    /\ Core(TreeOf(J)) = Core(TreeOf(I)) \ Under(TreeOf(I), p)
    /\ Under(TreeOf(J), p) = {}

\* C05 form: an existing attrpath family is extended in attrpath form, and the new binding goes last
SetForm(I, J, p) ==
    (Exact(I, p) = {} /\ Through(I, p) = {} /\ Family(I, p) # {} /\ SetRefusal(I, p) = "none") =>
        /\ Len(J) = Len(I) + 1 /\ SubSeq(J, 1, Len(I)) = I /\ IsBind(J[Len(J)]) /\ J[Len(J)].ap = p
FreshGoesLast(I, J, p) ==
    (Exact(I, p) = {} /\ Through(I, p) = {} /\ Beyond(I, p) = {}) =>
        /\ Len(J) = Len(I) + 1 /\ SubSeq(J, 1, Len(I)) = I /\ IsBind(J[Len(J)]) /\ J[Len(J)].ap[1] = p[1]
=============================================================================
