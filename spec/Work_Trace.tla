------------------------------ MODULE Work_Trace ------------------------------
(* case == [id, fam, d, c1 (renderer calls at depth d), c2 (at depth 2d), timeout]                                   *)
EXTENDS Naturals, Sequences, TLC, Json, IOUtils
Cases == ndJsonDeserialize(IOEnv.TRACE_FILE)
N == Len(Cases)
VARIABLE tid
Poly(c1, c2) == c2 <= 8 * c1 + 64
Clauses(c) == IF c.timeout THEN {"C20_Timeout"} ELSE IF ~Poly(c.c1, c.c2) THEN {"C20_Poly"} ELSE {}
TInit == tid = 0
TNext == /\ tid < N
         /\ PrintT(ToJson([id |-> Cases[tid + 1].id, bad |-> Clauses(Cases[tid + 1])]))
         /\ tid' = tid + 1
=============================================================================
