INIT TraceInit
NEXT TraceNext
VIEW View
CHECK_DEADLOCK FALSE
