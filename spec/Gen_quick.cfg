INIT Init
NEXT Next
CONSTANTS
  Mode = "single"
  Wide = FALSE
ACTION_CONSTRAINT EmitDone
INVARIANT TypeOK
CHECK_DEADLOCK FALSE
