---------------------------- MODULE Edit_Trace ----------------------------
(***************************************************************************)
(* Trace validation for edit histories.  A case is                          *)
(*   [id, seed : Doc, steps : Seq([op, res, post : Doc, valid, same_text,   *)
(*        same_snap, canon, region_ok, stable, coherent])]                  *)
(* recorded from the REAL code: the seed is the projection of the text that *)
(* was parsed, each step is one set_value / remove_value call on the SAME   *)
(* in-memory object with the projection of the text the object rebuilds to  *)
(* afterwards.  The trace spec walks the steps (doc' = observed post) and   *)
(* prints, for every step, the set of specification clauses it violates;    *)
(* the reference outcome is computed by Edit!Apply from the observed        *)
(* pre-state, never from an abstract seed.                                  *)
(***************************************************************************)
EXTENDS Edit, IOUtils

RECURSIVE IsSubSeq(_, _)
IsSubSeq(a, b) == IF a = <<>> THEN TRUE ELSE IF b = <<>> THEN FALSE
                  ELSE IF a[1] = b[1] THEN IsSubSeq(Tail(a), Tail(b)) ELSE IsSubSeq(a, Tail(b))

Cases == ndJsonDeserialize(IOEnv.TRACE_FILE)
N == Len(Cases)

VARIABLES tid, l
tvars == <<vars, tid, l>>

\* lenient reading (DESIGN.md appendix E): `set @x' on a layer-less target whose body already defines x may
\* edit that body binding instead of creating a layer
EffSel(pre, post, o) ==
    IF o.f = "set" /\ o.sel = 1 /\ pre.layers = <<>> /\ post.layers = <<>> /\ pre.shape = "ok" /\ post.shape = "ok"
       /\ (Exact(pre.body.items, o.path) # {} \/ Through(pre.body.items, o.path) # {})
    THEN 0 ELSE o.sel

IsRefAt(I, p) == \E i \in Exact(I, p) : I[i].val.k = "ref"
RECURSIVE RefOnPath(_, _)
RefOnPath(I, p) == \/ IsRefAt(I, p)
                   \/ (Through(I, p) # {} /\ LET i == Via(I, p) IN
                         IsSet(I[i].val) /\ RefOnPath(I[i].val.items, Drop(p, Len(I[i].ap))))

\* C05 "every other attribute path still has its previous value", beyond the addressed layer: the attribute
\* TREES of the body and of all other let layers are what they were (C09_Addressing is the stricter, textual form)
LT(ls) == [i \in 1..Len(ls) |-> TreeOf(ls[i])]
OthersKept(pre, post, sel, created, pruned) ==
    IF sel = 0 THEN LT(post.layers) = LT(pre.layers)
    ELSE /\ TreeOf(post.body.items) = TreeOf(pre.body.items)
         /\ IF created THEN post.layers # <<>> /\ LT(SubSeq(post.layers, 1, Len(post.layers) - 1)) = LT(pre.layers)
            ELSE IF pruned THEN LT(post.layers) = LT(RemoveAt(pre.layers, Len(pre.layers) - sel + 1))
            ELSE /\ Len(post.layers) = Len(pre.layers)
                 /\ \A i \in 1..Len(post.layers) : i # Len(post.layers) - sel + 1 => TreeOf(post.layers[i]) = TreeOf(pre.layers[i])

Clauses(pre, e) ==
    LET post == e.post
        o0 == e.op
        o == [o0 EXCEPT !.sel = EffSel(pre, post, o0)]
        ref == Apply(pre, o)
        has == HasLayer(pre, o.sel)
        I == IF has THEN ItemsAt(pre, o.sel) ELSE <<>>
        created == o.sel > Len(pre.layers)
        pruned == o.sel > 0 /\ Len(post.layers) < Len(pre.layers)
        okShape == post.shape = "ok" /\ (o.sel = 0 \/ pruned \/ o.sel <= Len(post.layers))
        J == IF ~okShape \/ pruned THEN <<>> ELSE ItemsAt(post, o.sel)
        vcom == o0.vc # <<>>       \* the value text carries comments: where they are attached is not prescribed
        viaRef == \/ o.f = "set" /\ RefOnPath(I, o.path)      \* C11 decides these
                  \/ Inherited(I, o.path) # {}                \* an inherited name is a reference, too
    IN
    \* shapes the projection does not follow (e.g. a top-level identifier resolved through a with-environment) may still be
    \* editable for the code: nothing is prescribed for them, except that a refusal is atomic
    IF pre.shape = "noneditable" /\ e.res = "ok" THEN {}
    ELSE IF e.res = "ok" THEN
        (IF ~e.valid THEN {"C05_Valid"} ELSE {}) \cup
        (IF ~e.stable THEN {"C06_EditStable"} ELSE {}) \cup
        (IF ~e.coherent THEN {"C14_TextAgrees"} ELSE {}) \cup
        (IF ref.res # "ok" /\ ref.why # "family" THEN {"C08_Loud:" \o ref.why} ELSE
         IF ~okShape THEN {"C05_Shape"} ELSE
         IF viaRef THEN (IF NoDuplicate(I) /\ ~NoDuplicate(J) THEN {"C05_NoDuplicate"} ELSE {}) ELSE
           (IF o.f = "set" /\ ~SetEffect(I, J, o.path, o.v) THEN {"C05_Effect"} ELSE {}) \cup
           (IF o.f = "rm" /\ ~RmEffect(I, J, o.path) THEN {"C05_Effect"} ELSE {}) \cup
           (IF o.f = "set" /\ ~vcom /\ ~SetFrame(I, J, o.path) THEN {"C04_Frame"} ELSE {}) \cup
           (IF o.f = "rm" /\ ~RmFrame(I, J, o.path) THEN {"C04_Frame"} ELSE {}) \cup
           (IF o.f = "set" /\ ~vcom /\ ~(SetForm(I, J, o.path) /\ FreshGoesLast(I, J, o.path)) THEN {"C05_Form"} ELSE {}) \cup
           (IF NoDuplicate(I) /\ ~NoDuplicate(J) THEN {"C05_NoDuplicate"} ELSE {}) \cup
           (IF ~OthersKept(pre, post, o.sel, created, pruned) THEN {"C05_OthersKept"} ELSE {}) \cup
           (IF e.canon /\ ~vcom /\ ~e.region_ok THEN {"C04_Bytes"} ELSE {}) \cup
           (IF ~( /\ OthersUntouched(pre, post, o.sel)
                  /\ ((o.sel > 0 /\ ~created /\ ~pruned) =>
                        /\ Len(post.layers) = Len(pre.layers)
                        /\ \A i \in 1..Len(post.layers) : i # Len(post.layers) - o.sel + 1 => post.layers[i] = pre.layers[i])
                  /\ (created => (o.sel = 1 /\ pre.layers = <<>> /\ Len(post.layers) = 1))
                  /\ (pruned => post.layers = RemoveAt(pre.layers, Len(pre.layers) - o.sel + 1)) )
            THEN {"C09_Addressing"} ELSE {}) \cup
           \* comments: none lost, invented or reordered by `set'; `rm' may only lose some (those attached to the item)
           \* (a value text that carries comments brings exactly those, once, in one place)
           (IF o.f = "set" /\ ~vcom /\ post.allc # pre.allc THEN {"C04_Comments"} ELSE {}) \cup
           (IF o.f = "set" /\ vcom /\ SetEffect(I, J, o.path, o.v) /\ ~(\E i \in 0..Len(pre.allc) :
                   post.allc = SubSeq(pre.allc, 1, i) \o o0.vc \o SubSeq(pre.allc, i + 1, Len(pre.allc)))
            THEN {"C04_Comments"} ELSE {}) \cup
           (IF o.f = "rm" /\ ~IsSubSeq(post.allc, pre.allc) THEN {"C04_Comments"} ELSE {}) \cup
           (IF pre.nl = 1 /\ post.nl # 1 THEN {"C04_FinalNewline"} ELSE {}))
    ELSE
        (IF e.res \notin {"KeyError", "ValueError"} THEN {"C08_ErrorClass:" \o e.res} ELSE {}) \cup
        (IF post # pre \/ ~e.same_text \/ ~e.same_snap THEN {"C08_Atomic"} ELSE {}) \cup
        (IF ref.res = "ok" /\ pre.shape = "ok" THEN {"C05_Refused"} ELSE {})

TraceInit == /\ tid \in 1..N /\ l = 0 /\ doc = Cases[tid].seed
             /\ last = [f |-> "init"] /\ n = 0 /\ hist = <<>>
TraceStep ==
    /\ l < Len(Cases[tid].steps)
    /\ LET e == Cases[tid].steps[l + 1] IN
       /\ PrintT(ToJson([id |-> Cases[tid].id, l |-> l + 1, bad |-> Clauses(doc, e)]))
       /\ doc' = e.post
    /\ l' = l + 1 /\ UNCHANGED <<tid, last, n, hist>>
TraceView == <<tid, l>>
=============================================================================
