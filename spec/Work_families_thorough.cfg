INIT FamInit
NEXT FamNext
CONSTANTS
  MaxPeriod = 3
  ModelKinds = {"lam"}
  D = 12
INVARIANT Emit
CHECK_DEADLOCK FALSE
