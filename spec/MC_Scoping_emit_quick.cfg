INIT Init
NEXT Next
CONSTANTS
  MaxFrames = 3
  EmitCases = TRUE
INVARIANT Emit
CHECK_DEADLOCK FALSE
