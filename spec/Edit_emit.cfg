INIT Init
NEXT Next
VIEW View
CONSTANTS
  MaxDepth = 1
  LawDepth = 0
  SeedBodies <- Bodies
  SeedLayers <- LayerStacks
  SeedWraps <- PlainWrap
ACTION_CONSTRAINT Emit
CHECK_DEADLOCK FALSE
