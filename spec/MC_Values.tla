------------------------------ MODULE MC_Values ------------------------------
(* Generator of Python data values (bounded depth) and of construction routes / container contexts, plus the       *)
(* escaping lemma checked over every string up to a length bound.                                                  *)
EXTENDS Values, Json
CONSTANTS MaxStr, Deep

StrAlphabet == {"a", "\"", "\\", "\n", "\t", "\r", "$", "{", "}", "'", " ", "U"}
RECURSIVE Strs(_)
Strs(n) == IF n = 0 THEN {<<>>} ELSE LET S == Strs(n - 1) IN S \cup {Append(s, c) : s \in {t \in S : Len(t) = n - 1}, c \in StrAlphabet}
NoInterp(s) == \A i \in 1..Len(s) - 1 : ~(s[i] = "$" /\ s[i + 1] = "{")
StrValues == {[t |-> "str", c |-> s] : s \in {x \in Strs(MaxStr) : NoInterp(x)}}

I(s) == [t |-> "int", s |-> s]
F(lex) == [t |-> "float", lex |-> lex, num |-> lex]
Ints == {I("0"), I("7"), I("-3"), I("9223372036854775807"), I("-9223372036854775808")}
Floats == {F("1.5"), F("-2.25"), F("0.1"), F("5.0"), F("1e-07"), F("1e+22"), F("-0.0"), F("123456789.125"), F("1e16"),
           F("-1e-07"), F("-1e+22"), F("5e-324"), F("-2.5e-10"), F("1.7976931348623157e+308"), F("100.0"), F("-7.0")}
Scalars == Ints \cup Floats \cup {[t |-> "bool", b |-> TRUE], [t |-> "bool", b |-> FALSE], [t |-> "null"]} \cup StrValues
\* one representative per kind for the elements of compound values
\* (1 / 1.0 / true and 0 / 0.0 / -0.0 / false are equal - and hash alike - as Python objects, but are different Nix values)
Reps == {I("7"), I("-3"), F("1.5"), F("-2.25"), [t |-> "bool", b |-> TRUE], [t |-> "null"],
         I("1"), F("1.0"), I("0"), F("0.0"), F("-0.0"), [t |-> "bool", b |-> FALSE],
         [t |-> "str", c |-> <<"a", "\"">>], [t |-> "str", c |-> <<>>]}
L(xs) == [t |-> "list", xs |-> xs]
D(ks, vs) == [t |-> "dict", ks |-> ks, vs |-> vs]
Lists1 == {L(<<>>)} \cup {L(<<a>>) : a \in Reps} \cup {L(<<a, b>>) : a \in Reps, b \in Reps}
          \cup {L(<<a, I("1"), b>>) : a \in {I("-3"), F("-2.25"), [t |-> "str", c |-> <<"a">>]}, b \in Reps}
Dicts1 == {D(<<>>, <<>>)} \cup {D(<<"k">>, <<a>>) : a \in Reps} \cup {D(<<"k", "j">>, <<a, b>>) : a \in Reps, b \in {I("-3"), F("1.5")}}
Nested == IF Deep THEN {L(<<x, I("1")>>) : x \in {L(<<>>), L(<<I("-3")>>), L(<<I("1"), I("2")>>)}}
                      \cup {D(<<"k">>, <<x>>) : x \in Lists1 \cup Dicts1}
                      \cup {D(<<"k", "j">>, <<x, y>>) : x \in {L(<<I("-3"), I("2")>>), D(<<"z">>, <<I("1")>>)}, y \in {L(<<F("-2.25")>>), D(<<>>, <<>>)}}
          ELSE {L(<<L(<<I("-3")>>), I("1")>>), D(<<"k">>, <<L(<<I("-3"), F("1.5")>>)>>), D(<<"k">>, <<D(<<"z">>, <<I("-3")>>)>>)}
\* lists that hold an attribute set (outside C13's data domain; C15 rebuilds documents built from them: an element that
\* needs several lines makes the renderer decide the list's layout at rebuild time)
DictLists == {L(<<a, D(<<"k", "j">>, <<I("7"), I("-3")>>)>>) : a \in {I("7"), [t |-> "str", c |-> <<"a">>]}}
             \cup {L(<<D(<<"k">>, <<L(<<I("1"), I("2")>>)>>)>>), L(<<L(<<I("1"), D(<<"k", "j">>, <<I("1"), I("2")>>)>>), I("3")>>)}
AllValues == Scalars \cup Lists1 \cup Dicts1 \cup Nested \cup DictLists

Routes == {"from_dict", "ctor_dict", "binding", "nixlist", "item_assign", "scope_assign", "top"}
VARIABLES v, route
Init == v \in AllValues /\ route \in Routes
Next == UNCHANGED <<v, route>>

\* escaping lemma (specification level): decode(escape(s)) = s, no raw quote, for every string without ${
Lemma_EscapeDecode == v.t = "str" => (DecodeBody(Escape(v.c)) = v.c /\ ~RawBreak(Escape(v.c)))
Emit == PrintT(ToJson([v |-> v, route |-> route]))
=============================================================================
