INIT Init
NEXT Next
CONSTANTS
  MaxStr = 3
  Deep = FALSE
INVARIANT Lemma_EscapeDecode
INVARIANT Emit
CHECK_DEADLOCK FALSE
