INIT Init
NEXT Next
CONSTANTS
  MaxStr = 2
  Deep = FALSE
INVARIANT Lemma_EscapeDecode
INVARIANT Emit
CHECK_DEADLOCK FALSE
