-------------------------------- MODULE Docs --------------------------------
(***************************************************************************)
(* C10, "all orders of creating, resolving and discarding documents in one  *)
(* process": histories over a few documents.  Every document d is           *)
(*     let v = 100 + d; in { x = v; y = w; w = v; n = { z = v; }; }          *)
(* so a reference resolved THROUGH document d must yield 100 + d - whatever *)
(* was created, resolved or discarded before, and wherever the reference    *)
(* (documents in Plain are `{ x = 1; q = 2; }': a reference to v placed    *)
(* there is unbound and must raise ResolutionError)                         *)
(* OBJECT came from:  Transplant(s, d, key) reads the identifier object at  *)
(* s.x (which attaches s's scopes to it), discards document s and assigns   *)
(* the object to key of document d (an existing key "x" or a fresh one).    *)
(* Lexical scoping knows places, not objects: the reference now sits in d.  *)
(* The recorded histories are replayed on the real code (impl.registry_case) *)
(* and judged by Registry_Trace.                                             *)
(***************************************************************************)
EXTENDS Naturals, Sequences, FiniteSets, TLC, Json

CONSTANTS DocIds, Plain, MaxOps      \* Plain: documents `{ x = 1; q = 2; }' that bind v nowhere
VARIABLES live, gen, hist
vars == <<live, gen, hist>>

Init == live = {} /\ gen = [d \in DocIds |-> 0] /\ hist = <<>>
Log(op, a) == hist' = Append(hist, <<op, a>>)
Create(d) == /\ d \notin live /\ live' = live \cup {d} /\ gen' = [gen EXCEPT ![d] = @ + 1] /\ Log("create", d)
Resolve(d) == /\ d \in live /\ UNCHANGED <<live, gen>> /\ Log("resolve", d)
Discard(d) == /\ d \in live /\ live' = live \ {d} /\ UNCHANGED gen /\ Log("discard", d)
Transplant(s, d, key) ==
    /\ s \in live /\ d \in live /\ s # d /\ s \notin Plain
    /\ live' = live \ {s} /\ UNCHANGED gen
    /\ Log("transplant", <<s, d, key>>)
Next == /\ Len(hist) < MaxOps
        /\ \/ \E d \in DocIds : Create(d) \/ Resolve(d) \/ Discard(d)
           \/ \E s, d \in DocIds, key \in {"x", "fresh"} : Transplant(s, d, key)
Spec == Init /\ [][Next]_vars

\* what every Resolve(d) and every Transplant(_, d, _) must observe: the value bound in d
Expected(d) == IF d \in Plain THEN "unbound" ELSE 100 + d
EmitHist == (Len(hist) = MaxOps) => PrintT(ToJson(hist))
TypeOK == live \subseteq DocIds
=============================================================================
