INIT Init
NEXT Next
CONSTANTS
  MaxItems = 14
  MaxDepth = 3
  LitSet <- Lits
INVARIANT EmitLarge
CHECK_DEADLOCK FALSE
