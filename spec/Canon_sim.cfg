INIT Init
NEXT Next
CONSTANTS
  MaxItems = 14
  MaxDepth = 3
  GapSet <- LetGaps
  LitSet <- Lits
INVARIANT EmitLarge
CHECK_DEADLOCK FALSE
