INIT Init
NEXT Next
CONSTANTS
  MaxFrames = 2
  EmitCases = TRUE
  Extended = TRUE
INVARIANT Emit
CHECK_DEADLOCK FALSE
