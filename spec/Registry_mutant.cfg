SPECIFICATION Spec
CONSTANTS
  Serials = {1, 2, 3, 4}
  Addrs = {1, 2}
  NoIdentityCheck = TRUE
INVARIANT C10_NoStaleContext
PROPERTY C10_CallbackOnlyOwn
CHECK_DEADLOCK FALSE
