INIT Init
NEXT Next
CONSTANTS
  Mode = "pairs"
  Wide = FALSE
INVARIANT EmitDoneInv
CHECK_DEADLOCK FALSE
