INIT Init
NEXT Next
CONSTANTS
  DocIds = {0, 1, 2, 9}
  Plain = {9}
  MaxOps = 9
INVARIANT EmitHist
INVARIANT TypeOK
CHECK_DEADLOCK FALSE
