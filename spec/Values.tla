------------------------------- MODULE Values -------------------------------
(***************************************************************************)
(* C13: Python data handed to the construction API must render to Nix text  *)
(* that READS BACK as the same data.                                         *)
(*  value  ::= [t |-> "int", s : decimal text]  | [t |-> "bool", b]          *)
(*           | [t |-> "null"] | [t |-> "float", lex : chars (repr), same]    *)
(*           | [t |-> "str", c : chars] | [t |-> "list", xs : Seq(value)]    *)
(*           | [t |-> "dict", ks : Seq(STRING), vs : Seq(value)]             *)
(*  reading ::= the same shape, produced by the independent reader           *)
(*    (harness/project.py data()) from the rendered text, where a string is  *)
(*    [t |-> "str", raw : chars of the literal's body], a float carries its  *)
(*    token `lex' and `same' (= the token denotes the original number), and  *)
(*    anything that is not Nix data syntax is [t |-> "notdata", why].        *)
(* Reads(reading, value) is the specification of "read back as Nix data      *)
(* equals the original"; strings are decoded by NixText!DecodeBody.          *)
(***************************************************************************)
EXTENDS Naturals, Sequences, FiniteSets, TLC

\* --- Nix string decoding (same rules as NixText.tla; duplicated to keep this module variable-free)
RECURSIVE DecodeBody(_)
DecodeBody(s) ==
    IF s = <<>> THEN <<>>
    ELSE IF s[1] = "\\" /\ Len(s) > 1 THEN
        (IF s[2] = "n" THEN <<"\n">> ELSE IF s[2] = "r" THEN <<"\r">> ELSE IF s[2] = "t" THEN <<"\t">> ELSE <<s[2]>>)
        \o DecodeBody(Tail(Tail(s)))
    ELSE <<s[1]>> \o DecodeBody(Tail(s))
RECURSIVE LiveInterp(_)
LiveInterp(s) ==
    IF Len(s) < 2 THEN FALSE
    ELSE IF s[1] = "\\" THEN LiveInterp(Tail(Tail(s)))
    ELSE IF s[1] = "$" /\ s[2] = "{" THEN TRUE
    ELSE LiveInterp(Tail(s))
RECURSIVE RawBreak(_)
RawBreak(s) ==      \* an unescaped double quote inside the body would end the literal early
    IF s = <<>> THEN FALSE
    ELSE IF s[1] = "\\" THEN (IF Len(s) > 1 THEN RawBreak(Tail(Tail(s))) ELSE TRUE)
    ELSE IF s[1] = "\"" THEN TRUE ELSE RawBreak(Tail(s))

\* --- Nix float token:  ( [1-9][0-9]* . [0-9]* | 0? . [0-9]+ ) ( [Ee] [+-]? [0-9]+ )?
Digit(c) == c \in {"0", "1", "2", "3", "4", "5", "6", "7", "8", "9"}
AllDigits(s) == \A i \in 1..Len(s) : Digit(s[i])
IndexOf(s, set) == LET hit == {i \in 1..Len(s) : s[i] \in set} IN IF hit = {} THEN 0 ELSE CHOOSE i \in hit : \A j \in hit : i <= j
IsNixFloat(s) ==
    LET e == IndexOf(s, {"e", "E"})
        mant == IF e = 0 THEN s ELSE SubSeq(s, 1, e - 1)
        expo == IF e = 0 THEN <<>> ELSE SubSeq(s, e + 1, Len(s))
        dot == IndexOf(mant, {"."})
        ip == IF dot = 0 THEN mant ELSE SubSeq(mant, 1, dot - 1)
        fp == IF dot = 0 THEN <<>> ELSE SubSeq(mant, dot + 1, Len(mant))
        expOK == e = 0 \/ (LET d == IF expo # <<>> /\ expo[1] \in {"+", "-"} THEN Tail(expo) ELSE expo IN d # <<>> /\ AllDigits(d))
    IN /\ dot # 0 /\ AllDigits(ip) /\ AllDigits(fp) /\ expOK
       /\ \/ (ip # <<>> /\ ip[1] # "0")                    \* [1-9][0-9]* . [0-9]*
          \/ (ip \in {<<>>, <<"0">>} /\ fp # <<>>)          \* 0? . [0-9]+
\* a (possibly negated) number
Negated(s) == s # <<>> /\ s[1] = "-"
Magnitude(s) == IF Negated(s) THEN Tail(s) ELSE s

RECURSIVE Reads(_, _)
Reads(r, v) ==
    IF r.t # v.t THEN FALSE
    ELSE CASE v.t = "int"   -> r.s = v.s
           [] v.t = "bool"  -> r.b = v.b
           [] v.t = "null"  -> TRUE
           [] v.t = "float" -> IsNixFloat(Magnitude(r.lex)) /\ r.num = v.num
           [] v.t = "str"   -> ~RawBreak(r.raw) /\ ~LiveInterp(r.raw) /\ DecodeBody(r.raw) = v.c
           [] v.t = "list"  -> Len(r.xs) = Len(v.xs) /\ \A i \in 1..Len(v.xs) : Reads(r.xs[i], v.xs[i])
           [] v.t = "dict"  -> r.ks = v.ks /\ Len(r.vs) = Len(v.vs) /\ \A i \in 1..Len(v.vs) : Reads(r.vs[i], v.vs[i])

\* which kind of leaf fails first (for the verdict)
RECURSIVE WhyNot(_, _)
WhyNot(r, v) ==
    IF Reads(r, v) THEN "ok"
    ELSE IF r.t = "notdata" THEN "notdata:" \o r.why
    ELSE IF r.t # v.t THEN "kind:" \o v.t \o "->" \o r.t
    ELSE IF v.t = "list" THEN
        (IF Len(r.xs) # Len(v.xs) THEN "list_length"
         ELSE LET bad == {i \in 1..Len(v.xs) : ~Reads(r.xs[i], v.xs[i])} IN WhyNot(r.xs[CHOOSE i \in bad : TRUE], v.xs[CHOOSE i \in bad : TRUE]))
    ELSE IF v.t = "dict" THEN
        (IF r.ks # v.ks THEN "dict_keys"
         ELSE LET bad == {i \in 1..Len(v.vs) : ~Reads(r.vs[i], v.vs[i])} IN WhyNot(r.vs[CHOOSE i \in bad : TRUE], v.vs[CHOOSE i \in bad : TRUE]))
    ELSE v.t

\* the spec-side lemma behind string round trips: escaping as the documentation describes it, then decoding, is the identity
RECURSIVE Escape(_)
Escape(s) ==
    IF s = <<>> THEN <<>>
    ELSE (CASE s[1] = "\\" -> <<"\\", "\\">> [] s[1] = "\"" -> <<"\\", "\"">> [] s[1] = "\n" -> <<"\\", "n">>
            [] s[1] = "\r" -> <<"\\", "r">> [] s[1] = "\t" -> <<"\\", "t">> [] OTHER -> <<s[1]>>) \o Escape(Tail(s))
=============================================================================
