INIT Init
NEXT Next
CONSTANTS
  MaxItems = 2
  MaxDepth = 1
  GapSet <- NoGaps
  LitSet <- QuickLits
INVARIANT Emit
CHECK_DEADLOCK FALSE
