------------------------------ MODULE Proc_Trace ------------------------------
(* Validates recorded multi-thread executions (events emitted by the guarded hooks, totally ordered by the          *)
(* scheduler / a lock-protected sequence number): case == [id, events : Seq([t, ev, ident])].                        *)
(* The trace is replayed over per-thread context stacks; every gap_read must see the identity the SAME thread        *)
(* installed last (C15_Isolation) and a parser identity must not be inside parse() for two threads at once.          *)
EXTENDS Naturals, Sequences, FiniteSets, TLC, Json, IOUtils
Cases == ndJsonDeserialize(IOEnv.TRACE_FILE)
N == Len(Cases)
VARIABLES tid, l, stacks, busy, bad
Threads == 0..15
TInit == /\ tid \in 1..N /\ l = 0 /\ stacks = [t \in Threads |-> <<>>] /\ busy = {} /\ bad = {}
TNext == /\ l < Len(Cases[tid].events)
         /\ LET e == Cases[tid].events[l + 1] IN
            /\ stacks' = IF e.ev = "bytes_enter" THEN [stacks EXCEPT ![e.t] = Append(@, e.ident)]
                         ELSE IF e.ev = "bytes_exit" /\ stacks[e.t] # <<>> THEN [stacks EXCEPT ![e.t] = SubSeq(@, 1, Len(@) - 1)]
                         ELSE stacks
            /\ busy' = IF e.ev = "parser_get" THEN busy \cup {<<e.t, e.ident>>}
                       ELSE IF e.ev = "parser_done" THEN busy \ {<<e.t, e.ident>>} ELSE busy
            /\ bad' = bad \cup
                 (IF e.ev = "gap_read" /\ (stacks[e.t] = <<>> \/ stacks[e.t][Len(stacks[e.t])] # e.ident) THEN {"C15_Isolation"} ELSE {}) \cup
                 (IF e.ev = "bytes_exit" /\ (stacks[e.t] = <<>> \/ stacks[e.t][Len(stacks[e.t])] # e.ident) THEN {"C15_ContextStack"} ELSE {}) \cup
                 (IF e.ev = "parser_get" /\ \E b \in busy : b[2] = e.ident /\ b[1] # e.t THEN {"C15_ParserExclusive"} ELSE {})
         /\ l' = l + 1 /\ UNCHANGED tid
TDone == /\ l = Len(Cases[tid].events)
         /\ PrintT(ToJson([id |-> Cases[tid].id, bad |-> bad \cup (IF ~Cases[tid].same_as_serial THEN {"C15_SameAsSerial"} ELSE {})]))
         /\ UNCHANGED <<tid, l, stacks, busy, bad>>
Next == TNext \/ TDone
View == <<tid, l>>
=============================================================================
