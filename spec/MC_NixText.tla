---------------------------- MODULE MC_NixText ----------------------------
(* Bounded model for NixText: every name / every path text over the        *)
(* character classes up to a length bound.                                  *)
EXTENDS NixText, Json
CONSTANTS MaxName, MaxText, MaxSegs, EmitCases

\* one representative per character class ("U" stands for a non-ASCII character, substituted by the harness)
Alphabet == {"a", "n", "0", "_", "'", "-", ".", "\"", "\\", "$", "{", "}", " ", "\n", "\t", "U"}
RECURSIVE Strings(_)
Strings(n) == IF n = 0 THEN {<<>>} ELSE LET S == Strings(n - 1) IN S \cup {Append(s, c) : s \in {t \in S : Len(t) = n - 1}, c \in Alphabet}
Names == (Strings(MaxName) \ {<<>>}) \cup Keywords
Texts == Strings(MaxText)

VARIABLES kind, names, text      \* what this behaviour explores
mvars == <<tvars, kind, names, text>>

Init == \/ /\ kind = "names" /\ \E k \in 1..MaxSegs : names \in [1..k -> (IF k = 1 THEN Names ELSE Strings(2) \ {<<>>})]
           /\ text = PathText(names) /\ TokInit(text)
        \/ /\ kind = "text" /\ names = <<>> /\ text \in Texts /\ TokInit(text)
Next == TokNext /\ UNCHANGED <<kind, names, text>>

\* C12 on the model
C12_SplitAtDots == (kind = "names" /\ Finished) => (err = "" /\ segs = names)
C12_RoundTrip == kind = "names" => \A i \in 1..Len(names) :
                    NixDecode(AttrText(names[i])) = names[i] /\ ~NixLive(AttrText(names[i]))
\* the machine and the function agree (the function is what the trace module evaluates)
MachineIsFunction == Finished => LET t == Tokenize(text) IN
                        IF text = <<>> THEN TRUE ELSE (t.e = err /\ (err = "" => t.s = segs))
\* emission of cases for direction A
Emit == (EmitCases /\ Finished) =>
          PrintT(ToJson([kind |-> kind, names |-> names, text |-> text, err |-> err, segs |-> segs]))
=============================================================================
