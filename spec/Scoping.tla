------------------------------ MODULE Scoping ------------------------------
(***************************************************************************)
(* Nix lexical scoping for the references nix-manipulator resolves (C10)    *)
(* and the binding an edit through a reference must update (C11).           *)
(*                                                                          *)
(* A CHAIN is the sequence of frames that enclose a reference, OUTERMOST    *)
(* first:  [kind : "let" | "rec" | "set" | "with",                          *)
(*          binds : Seq([n : Name, k : "lit" | "ref" | "inh", v, m])]       *)
(*   let / rec : the frame's bindings are in scope of the body and of each  *)
(*               other; set : a plain attribute set binds nothing;          *)
(*   with      : `with { binds }; body' - consulted only when no enclosing  *)
(*               let / rec binds the name, innermost first; the environment *)
(*               set itself is evaluated OUTSIDE the with.                  *)
(*   k = "lit" : n = v;   "ref" : n = m;   "inh" : inherit n;               *)
(*   k = "inhfrom" : inherit (m) n;  - select n from what m resolves to      *)
(*   k = "setv" : n = { sv };  a literal set (only literal members), the     *)
(*               possible source of an inherit-from                          *)
(*   formals   : `({ n ? v, .. }: body) { n = arg; .. }' - a directly        *)
(*               applied function; k = "formal" with default v (or 0) and   *)
(*               supplied argument arg (or 0): the ARGUMENT wins             *)
(*               A formals frame may carry argn = "s": the call is           *)
(*               `({ n ? v, .. }: body) s' - the argument is the NAME s,     *)
(*               resolved AT THE CALL SITE (in the frames outside the        *)
(*               formals frame, the call's own let included); a call whose   *)
(*               argument does not resolve to a set is an error for every    *)
(*               reference of the body.                                      *)
(* The reference `x = name' sits in a holder set below the last frame (or   *)
(* in the last frame itself when that is a set kind - the harness decides). *)
(***************************************************************************)
EXTENDS Naturals, Sequences, FiniteSets, TLC

BindIdx(f, n) == LET s == {i \in 1..Len(f.binds) : f.binds[i].n = n} IN IF s = {} THEN 0 ELSE CHOOSE i \in s : \A j \in s : i <= j
Lexical(f) == f.kind \in {"let", "rec", "formals"}
ArgName(f) == IF "argn" \in DOMAIN f THEN f.argn ELSE ""

\* result: [ok |-> TRUE, v |-> literal, at |-> <<frame, name>>]
\*     or  [ok |-> FALSE, why |-> "unbound" | "cycle", last |-> the last binding (name = value) that was followed,
\*          <<0, n>> if none]
RECURSIVE Walk(_, _, _, _, _), LookWith(_, _, _, _, _), LookLex(_, _, _, _, _), Follow(_, _, _, _, _), ArgIsSet(_, _, _, _)

\* the binding b of frame j was selected for the name: follow it
Follow(ch, j, b, seen, last) ==
    IF <<j, b.n>> \in seen THEN [ok |-> FALSE, why |-> "cycle", last |-> last]
    ELSE LET s2 == seen \cup {<<j, b.n>>}
             inner == IF Lexical(ch[j]) THEN j ELSE j - 1 IN     \* scope in which the right-hand side is evaluated
         CASE b.k = "lit" -> [ok |-> TRUE, v |-> b.v, at |-> <<j, b.n>>]
           [] b.k = "formal" /\ ArgName(ch[j]) # "" ->
                LET src == Walk(ch, j - 1, ArgName(ch[j]), s2, last) IN                           \* the argument, at the call site
                IF ~src.ok THEN src
                ELSE IF src.v # 999 THEN [ok |-> FALSE, why |-> "unbound", last |-> last]
                ELSE LET hit == {i \in 1..Len(src.sv) : src.sv[i].n = b.n} IN
                     IF hit # {} THEN [ok |-> TRUE, v |-> src.sv[CHOOSE i \in hit : TRUE].v, at |-> <<src.at[1], ArgName(ch[j])>>]
                     ELSE IF b.v # 0 THEN [ok |-> TRUE, v |-> b.v, at |-> <<j, b.n>>]
                     ELSE [ok |-> FALSE, why |-> "unbound", last |-> last]
           [] b.k = "formal" /\ ArgName(ch[j]) = "" -> IF b.arg # 0 THEN [ok |-> TRUE, v |-> b.arg, at |-> <<j, b.n>>]
                                ELSE IF b.v # 0 THEN [ok |-> TRUE, v |-> b.v, at |-> <<j, b.n>>]
                                ELSE [ok |-> FALSE, why |-> "unbound", last |-> last]
           [] b.k = "setv" -> [ok |-> TRUE, v |-> 999, sv |-> b.sv, at |-> <<j, b.n>>]            \* a set, not a literal
           [] b.k = "inhfrom" ->
                LET src == Walk(ch, inner, b.m, s2, last) IN
                IF ~src.ok THEN src
                ELSE IF src.v # 999 THEN [ok |-> FALSE, why |-> "unbound", last |-> last]          \* source is not a set
                ELSE LET hit == {i \in 1..Len(src.sv) : src.sv[i].n = b.n} IN
                     IF hit = {} THEN [ok |-> FALSE, why |-> "unbound", last |-> last]
                     ELSE [ok |-> TRUE, v |-> src.sv[CHOOSE i \in hit : TRUE].v, at |-> <<src.at[1], b.m>>]
           [] b.k = "ref" -> Walk(ch, inner, b.m, s2, <<j, b.n>>)
           [] b.k = "inh" -> Walk(ch, j - 1, b.n, s2, last)          \* inherit: from outside frame j

\* the argument name of a call resolves (at the call site) to a set
ArgIsSet(ch, i, seen, last) == LET src == Walk(ch, i - 1, ArgName(ch[i]), seen, last) IN src.ok /\ src.v = 999
LookLex(ch, i, n, seen, last) ==
    IF i = 0 THEN [ok |-> FALSE, why |-> "nolex", last |-> last]
    ELSE IF ch[i].kind = "formals" /\ ArgName(ch[i]) # "" /\ ~ArgIsSet(ch, i, seen, last)
         THEN [ok |-> FALSE, why |-> "unbound", last |-> last]                                    \* the call itself fails
    ELSE IF Lexical(ch[i]) /\ BindIdx(ch[i], n) # 0 THEN Follow(ch, i, ch[i].binds[BindIdx(ch[i], n)], seen, last)
    ELSE LookLex(ch, i - 1, n, seen, last)

LookWith(ch, i, n, seen, last) ==
    IF i = 0 THEN [ok |-> FALSE, why |-> "unbound", last |-> last]
    ELSE IF ch[i].kind = "with" /\ BindIdx(ch[i], n) # 0 THEN Follow(ch, i, ch[i].binds[BindIdx(ch[i], n)], seen, last)
    ELSE LookWith(ch, i - 1, n, seen, last)

\* a reference to n evaluated inside frames 1..i
Walk(ch, i, n, seen, last) ==
    LET lx == LookLex(ch, i, n, seen, last) IN
    IF lx.ok \/ lx.why = "cycle" \/ lx.why = "unbound" THEN lx
    ELSE LookWith(ch, i, n, seen, last)
Resolve(ch, i, n, seen) == Walk(ch, i, n, seen, <<0, n>>)

-----------------------------------------------------------------------------
(* C10 as theorems about Resolve, checked by TLC on every chain of the      *)
(* bounded model (MC_Scoping).                                              *)
LexBinders(ch, i, n) == {j \in 1..i : Lexical(ch[j]) /\ BindIdx(ch[j], n) # 0}
\* a with never shadows a let / rec
C10_LetBeatsWith(ch, i, n) ==
    LET r == Resolve(ch, i, n, {}) IN
    (LexBinders(ch, i, n) # {} /\ r.ok) => \/ ch[r.at[1]].kind # "with"
                                           \/ \E j \in LexBinders(ch, i, n) : ch[j].binds[BindIdx(ch[j], n)].k # "lit"
\* every call on the way has an argument that resolves to a set (a failing call fails every reference of its body)
CallsOK(ch, i) == \A q \in 1..i : (ch[q].kind = "formals" /\ ArgName(ch[q]) # "") => ArgIsSet(ch, q, {}, <<0, "">>)
\* the innermost lexical binder decides when it is a literal
C10_InnermostWins(ch, i, n) ==
    (LexBinders(ch, i, n) # {} /\ CallsOK(ch, i)) =>
        LET j == CHOOSE x \in LexBinders(ch, i, n) : \A y \in LexBinders(ch, i, n) : x >= y
            b == ch[j].binds[BindIdx(ch[j], n)] IN
        b.k = "lit" => (Resolve(ch, i, n, {}).ok /\ Resolve(ch, i, n, {}).v = b.v /\ Resolve(ch, i, n, {}).at = <<j, n>>)
\* plain sets bind nothing
C10_PlainSetsInvisible(ch, i, n) ==
    Resolve(ch, i, n, {}) = Resolve([j \in 1..Len(ch) |-> IF ch[j].kind = "set" THEN [ch[j] EXCEPT !.binds = <<>>] ELSE ch[j]], i, n, {})

\* C11: the binding an assignment through the reference must update
\* - the binding at the end of the chain of references; when the chain ends in a name that is bound nowhere,
\*   the last binding on the chain (its value is that dangling reference); <<0, n>> when n itself is bound
\*   nowhere (then `set' overwrites the binding at the path).  For a cycle nothing is prescribed.
DefSite(ch, i, n) == LET r == Resolve(ch, i, n, {}) IN IF r.ok THEN r.at ELSE r.last
Prescribed(ch, i, n) == LET r == Resolve(ch, i, n, {}) IN r.ok \/ r.why = "unbound"
=============================================================================
