------------------------------ MODULE Imports ------------------------------
(***************************************************************************)
(* `import <relative path>' is resolved relative to the directory of the    *)
(* file that contains it (C17).                                             *)
(*                                                                          *)
(* World: a directory tree Dirs (paths are sequences of components under a  *)
(* scratch root); EVERY directory holds files with EVERY name of Names, and *)
(* each file's `val' is its own path - so resolving against the wrong       *)
(* directory (cwd, or the entry file's directory for a later hop) yields a  *)
(* different, planted answer (decoys).                                      *)
(* A case: entry file, a chain of hops (target file + spelling style),     *)
(* the working directory, the spelling of the entry path, and possibly a    *)
(* faulty last import argument.  The model builds the case step by step     *)
(* (Open, Follow, Fail); Target() is the specification of resolution.       *)
(***************************************************************************)
EXTENDS Naturals, Sequences, FiniteSets, SequencesExt, TLC, Json

CONSTANTS MaxHops, Dirs, Names, Cwds

QuickDirs == { <<"r">>, <<"r", "a">>, <<"r", "b">> }
QuickNames == {"m.nix", "t.nix"}
QuickCwds == { <<>>, <<"r">>, <<"r", "a">>, <<"w">> }
WideDirs == QuickDirs \cup { <<"r", "a", "c">> }
WideCwds == QuickCwds \cup { <<"r", "b">>, <<"r", "a", "c">> }

Files == {d \o <<n>> : d \in Dirs, n \in Names}
DirOf(f) == SubSeq(f, 1, Len(f) - 1)

RECURSIVE Norm(_, _)
\* normalise a component sequence: "." dropped, ".." pops
Norm(done, todo) == IF todo = <<>> THEN done
                    ELSE IF todo[1] = "." THEN Norm(done, Tail(todo))
                    ELSE IF todo[1] = ".." THEN Norm(IF done = <<>> THEN <<"..">> ELSE SubSeq(done, 1, Len(done) - 1), Tail(todo))
                    ELSE Norm(Append(done, todo[1]), Tail(todo))
\* SPECIFICATION of resolution: relative spellings are joined to the directory of the importing file
Target(file, sp) == IF sp.abs THEN Norm(<<>>, sp.comps) ELSE Norm(DirOf(file), sp.comps)

RECURSIVE CommonLen(_, _)
CommonLen(a, b) == IF a = <<>> \/ b = <<>> \/ a[1] # b[1] THEN 0 ELSE 1 + CommonLen(Tail(a), Tail(b))
Ups(n) == [i \in 1..n |-> ".."]
\* a spelling of file `to' as seen from directory `from', in a given style
Spell(from, to, style) ==
    LET k == CommonLen(from, DirOf(to))
        rel == Ups(Len(from) - k) \o SubSeq(to, k + 1, Len(to)) IN
    CASE style = "abs"   -> [abs |-> TRUE, comps |-> to, dot |-> FALSE]
      [] style = "dot"   -> [abs |-> FALSE, comps |-> <<".">> \o rel, dot |-> TRUE]       \* ./x  ./../x  ./d/x
      [] style = "plain" -> [abs |-> FALSE, comps |-> rel, dot |-> FALSE]                 \* ../x  d/x   (x alone is not a path literal)
Styles(from, to) == {"abs", "dot"} \cup (IF Len(Spell(from, to, "plain").comps) >= 2 THEN {"plain"} ELSE {})

Faults == {"none", "string", "angle", "call", "missing"}

VARIABLES cwd, entry, entrySp, chain, fault, stage
vars == <<cwd, entry, entrySp, chain, fault, stage>>

Init == /\ cwd \in Cwds /\ entry \in Files
        /\ \E st \in {"abs", "dot", "plain"} : entrySp = Spell(cwd, entry, st)
        /\ chain = <<>> /\ fault = "none" /\ stage = "open"

Cur == IF chain = <<>> THEN entry ELSE chain[Len(chain)].file
\* the working directory now, and the one a chdir moves to (a different directory of the world, or one outside it)
Wd == IF chain = <<>> THEN cwd ELSE chain[Len(chain)].at
AltCwd(c) == IF c = <<"r">> THEN <<"w">> ELSE <<"r">>
Follow == /\ stage = "open" /\ Len(chain) < MaxHops
          /\ \E t \in Files \ {Cur}, st \in {"abs", "dot", "plain"} :
                /\ st \in Styles(DirOf(Cur), t)
                \* the process may change its working directory between two hops (a HISTORY: open, chdir, follow):
                \* `at' is the working directory in effect when this hop is followed - Target() does not mention it
                \* (bound: chdir histories are generated for MaxHops <= 2 only - with three hops over the wide world the
                \*  5.5 million cases are beyond the harness; the thorough tier runs the two-hop chdir histories as well)
                /\ \E mv \in (IF MaxHops > 2 THEN {FALSE} ELSE BOOLEAN) :
                     chain' = Append(chain, [file |-> t, sp |-> Spell(DirOf(Cur), t, st),
                                             at |-> IF mv THEN AltCwd(Wd) ELSE Wd])
          /\ UNCHANGED <<cwd, entry, entrySp, fault, stage>>
Fail == /\ stage = "open" /\ Len(chain) < MaxHops
        /\ \E f \in Faults \ {"none"} : fault' = f
        /\ stage' = "done" /\ UNCHANGED <<cwd, entry, entrySp, chain>>
Done == /\ stage = "open" /\ stage' = "done" /\ UNCHANGED <<cwd, entry, entrySp, chain, fault>>
Next == Follow \/ Fail \/ Done

\* C17 on the model: following the spellings with Target() designates exactly the chain's files,
\* whatever the working directory and the spelling of the entry path
C17_Relative == \A i \in 1..Len(chain) :
                   Target(IF i = 1 THEN entry ELSE chain[i-1].file, chain[i].sp) = chain[i].file
C17_EntrySpelling == Target(cwd \o <<"_">>, entrySp) = entry
Expected == IF fault = "none" THEN [res |-> "value", val |-> Cur]
            ELSE [res |-> (CASE fault = "string" -> "TypeError" [] fault = "call" -> "TypeError"
                             [] fault = "angle" -> "ValueError" [] fault = "missing" -> "OSError"), val |-> <<>>]
Emit == stage' = "done" =>
          PrintT(ToJson([cwd |-> cwd, entry |-> entry, entrySp |-> entrySp, chain |-> chain', fault |-> fault', expected |-> Expected']))
=============================================================================
