INIT Init
NEXT NextFree
CONSTANTS
  MaxItems = 3
  WideGaps = FALSE
INVARIANT Wit_Cross
CHECK_DEADLOCK FALSE
