------------------------------ MODULE MC_Fmt ------------------------------
(* Bounded model of the formatter transducer: every input stream of at most *)
(* MaxItems items over a small alphabet, every choice of emitted gaps.      *)
EXTENDS Fmt
CONSTANTS MaxItems, WideGaps

T(c, s, n) == [k |-> "t", c |-> c, s |-> s, n |-> n]
C(s) == [k |-> "c", s |-> s, ml |-> FALSE, kind |-> "line"]
G(nl, sp) == [k |-> "g", nl |-> nl, sp |-> sp, tab |-> FALSE, tr |-> FALSE, ot |-> FALSE, q |-> FALSE]

Alphabet == { T("id", "a", "a"), T("int", "007", "7"), T("kw", "let", "let"), T("kw", "in", "in"),
              T("dl", "{", "{"), T("dl", "}", "}"), T("dl", ":", ":"), T("dl", ";", ";"),
              T("op", "+", "+"), C("L:one"), C("L:two") }
\* input gaps: also non-normal ones (tab, run of spaces, blank run, trailing space)
InGaps == { G(0, 1), G(1, 2), [G(0, 1) EXCEPT !.tab = TRUE], G(0, 3), G(3, 0), [G(1, 0) EXCEPT !.tr = TRUE] }
OutGaps == IF WideGaps THEN { G(0, 0), G(0, 1), G(1, 0), G(1, 2), G(2, 0) } ELSE { G(0, 0), G(0, 1), G(1, 2) }

RECURSIVE Streams(_)
Streams(n) == IF n = 0 THEN { <<G(0, 0)>> }
              ELSE LET S == Streams(n - 1) IN
                   S \cup { s \o <<x, g>> : s \in {t \in S : Len(t) = 2 * (n - 1) + 1}, x \in Alphabet, g \in {G(0, 1)} }
\* one non-normal gap somewhere (keeps the input space small): replace gap at one position
Inputs == LET base == Streams(MaxItems) IN
          base \cup { [s EXCEPT ![i] = g] : s \in {t \in base : Len(t) = 2 * MaxItems + 1}, i \in {3}, g \in InGaps }

ModelGC(o) == OutGaps
CanonGC(o) == IF Len(o) + 1 <= Len(inp) /\ IsGap(inp[Len(o) + 1]) THEN {inp[Len(o) + 1]} ELSE {}

Init == InitWith(Inputs)
NextFree == NextWith(ModelGC)
NextCanon == NextWith(CanonGC)

\* C02 on the model: in canonical mode, when no named normalisation fires, the output is the input
Inv_C02 == (Complete /\ Len(Toks(out)) = Len(Toks(inp)) /\ C03_Sides(inp, out)
              /\ \A i \in 1..Len(out) : IsTok(out[i]) => out[i].s = out[i].n) =>
           \A i \in 1..Len(out) : IsGap(out[i]) => out[i] = inp[i]
\* vacuity guards (expected to be VIOLATED when checked as invariants: witnesses exist)
Wit_Elide == ~(Complete /\ Len(Toks(out)) < Len(Toks(inp)))
Wit_Comma == ~(Complete /\ Len(Toks(out)) > Len(Toks(inp)))
Wit_Cross == ~(Complete /\ Cmts(inp) # <<>> /\ ~(\A i \in 1..Len(out) : IsGap(out[i]) \/ (i <= Len(inp) /\ out[i].k = inp[i].k)))
=============================================================================
