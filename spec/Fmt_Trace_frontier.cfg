INIT TraceInit
NEXT Step
VIEW View
CONSTRAINT Frontier
CHECK_DEADLOCK FALSE
