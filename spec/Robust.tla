------------------------------- MODULE Robust -------------------------------
(***************************************************************************)
(* C07 / C20 (error half): what the library and the CLI may do with a text, *)
(* as a function of two facts about it (both decided by tree-sitter):       *)
(*   err : the text contains a syntax error                                 *)
(*   one : it consists of exactly one error-free expression                 *)
(* Pass-through mode (err): rebuild returns the bytes, `test' says Fail/1,  *)
(* set / rm refuse.  As VALUE of a set, a text with ~one is refused.        *)
(* parse + rebuild of ANY text returns or raises a documented error         *)
(* (ValueError incl. NixSyntaxError); never an internal error.              *)
(* case == [id, err, one, rebuild : [res, same_bytes, mro], test : [out,    *)
(*          status], set / rm : [res, mro], value : [res, mro, out_has],    *)
(*          cli_set : [stdout_empty, status], edits : Seq([kind, npath, res, *)
(*          mro]), cli_edits : Seq([argv, stdout_empty, status])]            *)
(***************************************************************************)
EXTENDS Naturals, Sequences, TLC, Json, IOUtils

Cases == ndJsonDeserialize(IOEnv.TRACE_FILE)
N == Len(Cases)
VARIABLE tid

InMro(r, cls) == \E i \in 1..Len(r.mro) : r.mro[i] = cls
Documented(r) == r.res = "ok" \/ InMro(r, "ValueError") \/ InMro(r, "SyntaxError")
Refusal(r) == r.res # "ok" /\ (InMro(r, "ValueError") \/ InMro(r, "KeyError") \/ InMro(r, "SyntaxError"))

C07(c) ==
    (IF c.err /\ ~(c.rebuild.res = "ok" /\ c.rebuild.same_bytes) THEN {"C07_PassThrough"} ELSE {}) \cup
    (IF c.err /\ ~(c.test.out = "Fail" /\ c.test.status = 1) THEN {"C07_TestFails"} ELSE {}) \cup
    (IF c.err /\ ~Refusal(c.set) THEN {"C07_NeverEdited_set"} ELSE {}) \cup
    (IF c.err /\ ~Refusal(c.rm) THEN {"C07_NeverEdited_rm"} ELSE {}) \cup
    (IF c.err /\ ~(c.cli_set.stdout_empty /\ c.cli_set.status # 0) THEN {"C07_CliSilent"} ELSE {}) \cup
    \* ... whatever the path of the edit looks like (nested, quoted, scope-prefixed), and for the CLI as well
    (IF c.err THEN {"C07_NeverEdited_path:" \o c.edits[i].kind \o " " \o c.edits[i].npath :
                        i \in {j \in 1..Len(c.edits) : ~Refusal(c.edits[j])}} ELSE {}) \cup
    (IF c.err THEN {"C07_CliSilent:" \o c.cli_edits[i].argv :
                        i \in {j \in 1..Len(c.cli_edits) : ~(c.cli_edits[j].stdout_empty /\ c.cli_edits[j].status # 0)}} ELSE {}) \cup
    (IF ~c.one /\ ~(c.value.res # "ok" /\ InMro(c.value, "ValueError")) THEN {"C07_ValueWellFormed"} ELSE {})
C20(c) ==
    (IF ~Documented(c.rebuild) THEN {"C20_DocumentedErrors:" \o c.rebuild.res} ELSE {})

TInit == tid = 0
TNext == /\ tid < N
         /\ LET c == Cases[tid + 1] IN PrintT(ToJson([id |-> c.id, c07 |-> C07(c), c20 |-> C20(c)]))
         /\ tid' = tid + 1
=============================================================================
