INIT Init
NEXT Next
CONSTANTS
  MaxHops = 3
  Dirs <- WideDirs
  Names <- QuickNames
  Cwds <- WideCwds
INVARIANT C17_Relative
INVARIANT C17_EntrySpelling
ACTION_CONSTRAINT Emit
CHECK_DEADLOCK FALSE
