-------------------------------- MODULE Proc --------------------------------
(***************************************************************************)
(* Process-wide state touched by parse / rebuild, and threads (C15).        *)
(* Each thread t processes its own document (identified with t) in one      *)
(* public call whose accesses to shared state are the hook points:          *)
(*   AcquireParser, ParseDone, EnterBytes, ReadGap (GapReads times),        *)
(*   ExitBytes, Finish.                                                      *)
(* DESIGN under test (constants FALSE): the parser lives in a thread-local  *)
(* slot, the source bytes in a context variable (one stack per thread).     *)
(* MUTANT designs (constants TRUE) - a module-level parser, a module-level  *)
(* source-bytes variable - are what C15_Isolation must refute.              *)
(***************************************************************************)
EXTENDS Naturals, Sequences, FiniteSets, TLC, Json

CONSTANTS Threads, GapReads, SharedParser, GlobalBytes

VARIABLES pc,        \* per thread: next hook point
          inParser,  \* set of <<thread, parser>> currently inside parser.parse
          ctx,       \* per thread: stack of installed source bytes (context variable)
          glob,      \* the module-level variable of the GlobalBytes mutant (stack discipline via saved tokens)
          saved,     \* per thread: the token saved by EnterBytes (previous value) in the GlobalBytes mutant
          reads,     \* per thread: the bytes each ReadGap observed
          nread,     \* per thread: number of gap reads done
          sched      \* the interleaving so far (sequence of thread ids; makes every schedule a distinct behaviour)
vars == <<pc, inParser, ctx, glob, saved, reads, nread, sched>>

ParserOf(t) == IF SharedParser THEN 0 ELSE t
Init == /\ pc = [t \in Threads |-> "acquire"] /\ inParser = {} /\ ctx = [t \in Threads |-> <<>>]
        /\ glob = 0 /\ saved = [t \in Threads |-> 0] /\ reads = [t \in Threads |-> <<>>]
        /\ nread = [t \in Threads |-> 0] /\ sched = <<>>

Step(t) == sched' = Append(sched, t)
AcquireParser(t) == /\ pc[t] = "acquire" /\ inParser' = inParser \cup {<<t, ParserOf(t)>>}
                    /\ pc' = [pc EXCEPT ![t] = "parsed"] /\ Step(t) /\ UNCHANGED <<ctx, glob, saved, reads, nread>>
ParseDone(t) == /\ pc[t] = "parsed" /\ inParser' = inParser \ {<<t, ParserOf(t)>>}
                /\ pc' = [pc EXCEPT ![t] = "enter"] /\ Step(t) /\ UNCHANGED <<ctx, glob, saved, reads, nread>>
EnterBytes(t) == /\ pc[t] = "enter"
                 /\ IF GlobalBytes THEN glob' = t /\ saved' = [saved EXCEPT ![t] = glob] /\ UNCHANGED ctx
                    ELSE ctx' = [ctx EXCEPT ![t] = Append(@, t)] /\ UNCHANGED <<glob, saved>>
                 /\ pc' = [pc EXCEPT ![t] = "read"] /\ Step(t) /\ UNCHANGED <<inParser, reads, nread>>
Visible(t) == IF GlobalBytes THEN glob ELSE (IF ctx[t] = <<>> THEN 0 ELSE ctx[t][Len(ctx[t])])
ReadGap(t) == /\ pc[t] = "read" /\ nread[t] < GapReads
              /\ reads' = [reads EXCEPT ![t] = Append(@, Visible(t))] /\ nread' = [nread EXCEPT ![t] = @ + 1]
              /\ Step(t) /\ UNCHANGED <<pc, inParser, ctx, glob, saved>>
ExitBytes(t) == /\ pc[t] = "read" /\ nread[t] = GapReads
                /\ IF GlobalBytes THEN glob' = saved[t] /\ UNCHANGED <<ctx, saved>>
                   ELSE ctx' = [ctx EXCEPT ![t] = SubSeq(@, 1, Len(@) - 1)] /\ UNCHANGED <<glob, saved>>
                /\ pc' = [pc EXCEPT ![t] = "done"] /\ Step(t) /\ UNCHANGED <<inParser, reads, nread>>
Next == \E t \in Threads : AcquireParser(t) \/ ParseDone(t) \/ EnterBytes(t) \/ ReadGap(t) \/ ExitBytes(t)
Spec == Init /\ [][Next]_vars

\* C15: every read observes the bytes the reading thread itself installed; a parser is used by one thread at a time
C15_Isolation == \A t \in Threads : \A i \in 1..Len(reads[t]) : reads[t][i] = t
C15_ParserExclusive == \A a, b \in inParser : a[2] = b[2] => a[1] = b[1]
\* the result of a thread is a function of its own input only (here: its reads)
AllDone == \A t \in Threads : pc[t] = "done"
EmitSched == AllDone => PrintT(ToJson([sched |-> sched]))
=============================================================================
