INIT MInit
NEXT MNext
VIEW View
CONSTANTS
  MaxDepth = 1
  LawDepth = 0
  SeedBodies <- MapBodies
  SeedLayers <- MapLayers
  SeedWraps <- PlainWrap
ACTION_CONSTRAINT MEmit
CHECK_DEADLOCK FALSE
