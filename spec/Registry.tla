------------------------------ MODULE Registry ------------------------------
(***************************************************************************)
(* The identity-keyed registry of resolution contexts (resolution._CONTEXTS) *)
(* with OBJECT LIFETIMES and ADDRESS REUSE (C10: a result is never taken     *)
(* from an unrelated document or stale object).                              *)
(* Objects have a unique serial and, while alive, an address; a dead         *)
(* object's address may be given to a new object.  The registry maps an      *)
(* address to <<serial of the object it was stored for, context>>.           *)
(* Get(o) answers with the stored context only if the entry was stored for   *)
(* THIS object (the weak reference still points to it); the death callback   *)
(* may be DELAYED (Die and Callback are separate steps), which is exactly    *)
(* the window the identity check closes.  NoIdentityCheck = TRUE is the      *)
(* mutant design (keyed by address alone) that C10_NoStaleContext refutes.   *)
(***************************************************************************)
EXTENDS Naturals, FiniteSets, TLC

CONSTANTS Serials, Addrs, NoIdentityCheck

VARIABLES addrOf,   \* live objects: serial -> address
          dead,     \* serials of dead objects
          pending,  \* dead objects whose death callback has not run yet
          reg,      \* address -> [serial, ctx]   (ctx = serial of the object it was computed for)
          lastHit   \* the last answer of Get: [serial, ctx] or none
vars == <<addrOf, dead, pending, reg, lastHit>>

None == [serial |-> 0, ctx |-> 0]
Live == DOMAIN addrOf
Init == addrOf = <<>> /\ dead = {} /\ pending = {} /\ reg = [a \in Addrs |-> None] /\ lastHit = None

FreeAddrs == Addrs \ {addrOf[s] : s \in Live}
Alloc(s) == /\ s \notin Live /\ s \notin dead /\ FreeAddrs # {}
            /\ \E a \in FreeAddrs : addrOf' = [x \in Live \cup {s} |-> IF x = s THEN a ELSE addrOf[x]]
            /\ UNCHANGED <<dead, pending, reg, lastHit>>
Store(s) == /\ s \in Live /\ reg' = [reg EXCEPT ![addrOf[s]] = [serial |-> s, ctx |-> s]]
            /\ UNCHANGED <<addrOf, dead, pending, lastHit>>
Get(s) == /\ s \in Live
          /\ LET e == reg[addrOf[s]] IN
             IF e = None THEN lastHit' = None /\ UNCHANGED reg
             ELSE IF NoIdentityCheck \/ e.serial = s THEN lastHit' = [serial |-> s, ctx |-> e.ctx] /\ UNCHANGED reg
             ELSE lastHit' = None /\ reg' = [reg EXCEPT ![addrOf[s]] = None]      \* stale entry dropped
          /\ UNCHANGED <<addrOf, dead, pending>>
Die(s) == /\ s \in Live /\ addrOf' = [x \in Live \ {s} |-> addrOf[x]]
          /\ dead' = dead \cup {s} /\ pending' = pending \cup {<<s, addrOf[s]>>}
          /\ UNCHANGED <<reg, lastHit>>
Callback(p) == /\ p \in pending /\ pending' = pending \ {p}
               /\ reg' = IF reg[p[2]].serial = p[1] THEN [reg EXCEPT ![p[2]] = None] ELSE reg    \* only its own entry
               /\ UNCHANGED <<addrOf, dead, lastHit>>
Clear(s) == /\ s \in Live /\ reg' = [reg EXCEPT ![addrOf[s]] = None] /\ UNCHANGED <<addrOf, dead, pending, lastHit>>
Next == \/ \E s \in Serials : Alloc(s) \/ Store(s) \/ Get(s) \/ Die(s) \/ Clear(s)
        \/ \E p \in pending : Callback(p)
Spec == Init /\ [][Next]_vars

\* a context handed out for object s was stored for object s
C10_NoStaleContext == lastHit # None => lastHit.ctx = lastHit.serial
\* a live object's own entry is never removed by another object's (late) death callback
C10_CallbackOnlyOwn == [][\A p \in pending : (pending' = pending \ {p} /\ reg' # reg) => reg[p[2]].serial = p[1]]_vars
=============================================================================
