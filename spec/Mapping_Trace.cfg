INIT TInit
NEXT TNext
VIEW TView
CONSTANTS
  MaxDepth = 1
  LawDepth = 0
  SeedBodies <- MapBodies
  SeedLayers <- MapLayers
  SeedWraps <- PlainWrap
CHECK_DEADLOCK FALSE
