INIT TInit
NEXT TNext
VIEW TView
CONSTANTS
  MaxDepth = 1
  LawDepth = 0
  SeedBodies <- Bodies
  SeedLayers <- MapLayers
  SeedWraps <- PlainWrap
CHECK_DEADLOCK FALSE
