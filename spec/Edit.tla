-------------------------------- MODULE Edit --------------------------------
(***************************************************************************)
(* The document as a STATE MACHINE: one action per public editing call      *)
(* (`set_value' / `remove_value' of the CLI helpers; the mapping API is in  *)
(* Mapping.tla).  Sequential library: the linearization point of a call is  *)
(* its return, also on the error path.                                      *)
(*                                                                          *)
(*   op == [f : "set" | "rm", sel : 0.., path : Seq(Name), v : Val]         *)
(*   sel = 0 edits the attribute set itself, sel = d >= 1 the d-th `let'     *)
(*   layer counted from the INNERMOST one (`@' = 1, `@@' = 2, ...).          *)
(*                                                                          *)
(* The successor state is computed with the reference constructors of       *)
(* Doc.tla; the properties C04 C05 C08 C09 C19 are action properties /      *)
(* invariants phrased with Doc's relations, so TLC checks that the          *)
(* documented semantics themselves satisfy the properties.  The same        *)
(* relations judge recorded implementation steps in Edit_Trace.tla.         *)
(***************************************************************************)
EXTENDS Doc, Json

CONSTANTS MaxDepth,     \* bound on the number of operations in a history
          LawDepth      \* the algebraic laws (C19) are evaluated at documents reached by at most LawDepth operations

VARIABLES doc,   \* the document
          last,  \* the last operation and its result class (observation; hidden by VIEW)
          n,     \* number of operations applied so far
          hist   \* the whole history: seed and <<op, result, document>> steps (observation; hidden by VIEW)
vars == <<doc, last, n, hist>>

-----------------------------------------------------------------------------
(* Seed documents (Appendix B of DESIGN.md).                                *)
IntV(i) == [k |-> "int", v |-> i]
RefV(x) == [k |-> "ref", n |-> x]
OpqV(h) == [k |-> "opq", h |-> h]
SetV(ml, items) == [k |-> "set", rec |-> FALSE, ml |-> ml, items |-> items, dang |-> <<>>]
RecV(ml, items) == [k |-> "set", rec |-> TRUE, ml |-> ml, items |-> items, dang |-> <<>>]
B(ap, v) == NewB(ap, v)
BC(ap, v, lead, eol, blank) == [k |-> "b", ap |-> ap, val |-> v, lead |-> lead, eol |-> eol, blank |-> blank, lblank |-> FALSE]
Inh(names) == [k |-> "i", src |-> "", names |-> names, lead |-> <<>>, eol |-> "", blank |-> FALSE, lblank |-> FALSE]

D(wrap, layers, body) == [shape |-> "ok", wrap |-> wrap, layers |-> layers, body |-> body,
                          lead |-> <<>>, trail |-> <<>>, nl |-> 1, allc |-> <<>>]

Bodies == {
  SetV(FALSE, <<>>),                                                     \* { }
  SetV(FALSE, <<B(<<"a">>, IntV(1))>>),                                   \* { a = 1; }
  SetV(TRUE, <<B(<<"a">>, IntV(1)), B(<<"b">>, OpqV("\"s\"")), B(<<"c">>, IntV(3))>>),
  SetV(TRUE, <<B(<<"a">>, IntV(1)), B(<<"s">>, SetV(FALSE, <<B(<<"x">>, IntV(1))>>))>>),          \* explicit inline set
  SetV(TRUE, <<B(<<"s">>, SetV(TRUE, <<B(<<"x">>, IntV(1)), B(<<"y">>, IntV(2))>>)), B(<<"a">>, IntV(1))>>),
  SetV(TRUE, <<B(<<"s">>, SetV(FALSE, <<>>)), B(<<"a">>, IntV(1))>>),                            \* explicit empty parent
  SetV(TRUE, <<B(<<"f", "x">>, IntV(1)), B(<<"f", "y">>, IntV(2)), B(<<"a">>, IntV(1))>>),         \* attrpath family
  SetV(TRUE, <<B(<<"f", "x">>, IntV(1)), B(<<"a">>, IntV(1)), B(<<"f", "y">>, IntV(2))>>),         \* family, separated
  SetV(TRUE, <<B(<<"f", "g", "x">>, IntV(1)), B(<<"a">>, IntV(1))>>),                             \* three segments
  SetV(TRUE, <<B(<<"s">>, SetV(TRUE, <<B(<<"f", "x">>, IntV(1)), B(<<"f", "y">>, IntV(2))>>)), B(<<"a">>, IntV(1))>>),
  SetV(TRUE, <<BC(<<"a">>, IntV(1), <<"L:about a">>, "", FALSE), BC(<<"b">>, IntV(2), <<>>, "L:eol b", FALSE),
               BC(<<"c">>, IntV(3), <<"L:about c">>, "", TRUE)>>),                                \* trivia
  SetV(TRUE, <<BC(<<"a">>, IntV(1), <<>>, "", FALSE), BC(<<"b">>, IntV(2), <<>>, "", TRUE),
               BC(<<"f", "x">>, IntV(3), <<"L:fam">>, "", TRUE)>>),
  RecV(TRUE, <<B(<<"a">>, IntV(1)), B(<<"b">>, RefV("a"))>>),
  SetV(TRUE, <<B(<<"a">>, IntV(1)), Inh(<<"lib">>), B(<<"c">>, IntV(3))>>),                          \* inherit entry
  SetV(TRUE, <<B(<<"a'">>, IntV(1)), B(<<"a b">>, IntV(2)), B(<<"s">>, SetV(FALSE, <<B(<<"x.y">>, IntV(1))>>))>>),   \* names that need quoting
  SetV(TRUE, <<B(<<"s">>, SetV(TRUE, <<B(<<"t">>, SetV(TRUE, <<B(<<"x">>, IntV(1))>>)), B(<<"y">>, IntV(2))>>))>>),        \* three levels
  SetV(FALSE, <<B(<<"a">>, IntV(1)), B(<<"b">>, IntV(2))>>),                                          \* inline, two bindings
  [SetV(TRUE, <<B(<<"a">>, IntV(1))>>) EXCEPT !.dang = <<"L:dangling">>],                              \* comment before the closing brace
  SetV(TRUE, <<B(<<"m">>, SetV(FALSE, <<B(<<"x">>, IntV(1))>>)), B(<<"m", "b">>, IntV(2)), B(<<"a">>, IntV(1))>>),       \* explicit + attrpath for one root
  SetV(TRUE, <<B(<<"f", "g", "x">>, IntV(1)), B(<<"f", "g", "y">>, IntV(2)), B(<<"a">>, IntV(1))>>),                    \* family sharing a 2-segment prefix
  SetV(TRUE, <<B(<<"s">>, SetV(FALSE, <<B(<<"x">>, IntV(1))>>)), BC(<<"a">>, IntV(1), <<>>, "L:eol a", FALSE)>>),         \* inline nested set in a multi-line set
  SetV(TRUE, <<B(<<"a">>, IntV(1)), B(<<"s", "a", "on">>, IntV(1)), B(<<"s", "b", "on">>, IntV(1))>>)                    \* twin leaves: same name and value under two parents
  ,SetV(TRUE, <<B(<<"p", "q", "r", "t">>, IntV(1)), B(<<"p", "q", "e">>, IntV(2)), B(<<"a">>, IntV(1))>>)                  \* four segments, a deeper sub-path before a shallower sibling
}
\* bodies for the mapping API (C14): its keys are names as SPELLED in the file, so names that need quoting and
\* inherited names (readable, but not deletable through the mapping) are left to C12 / C11
MapBodies == {b \in Bodies : \A i \in 1..Len(b.items) : IsBind(b.items[i]) /\ b.items[i].ap[1] \notin {"a'", "a b"}}
LayerStacks == {
  <<>>,
  << <<B(<<"u">>, IntV(1))>> >>,
  << <<B(<<"u">>, IntV(1)), B(<<"w">>, IntV(2))>> >>,
  << <<B(<<"u">>, IntV(1))>>, <<B(<<"u">>, IntV(2)), B(<<"w">>, IntV(3))>> >>,
  << <<B(<<"u">>, IntV(1))>>, <<B(<<"u">>, IntV(2))>>, <<B(<<"u">>, IntV(3))>> >>,
  << <<B(<<"s">>, SetV(FALSE, <<B(<<"x">>, IntV(1)), B(<<"y">>, IntV(2))>>))>> >>,
  << <<B(<<"g", "x">>, IntV(1)), B(<<"g", "y">>, IntV(2)), B(<<"u">>, IntV(3))>> >>                   \* attrpath family in a layer
}
PlainWrap == { <<>> }
MapLayers == { <<>>, << <<B(<<"u">>, IntV(1))>> >>, << <<B(<<"u">>, IntV(1)), B(<<"w">>, IntV(2))>> >>,
               << <<Inh(<<"lib">>), B(<<"u">>, IntV(1)), B(<<"w">>, IntV(2))>> >> }          \* an inherit in front of the bindings
Wrappers == { <<>>, <<"lam_id">>, <<"lam_formals">>, <<"with">>, <<"assert">>, <<"paren">>,
              <<"call">>, <<"call_rec">>, <<"call_paren_lam">>, <<"lam_formals", "with", "assert">> }

CONSTANTS SeedBodies, SeedLayers, SeedWraps      \* which part of the seed product this model covers
\* file-level comments around the expression: the code keeps them on the target set (before / after trivia)
WithFileTrivia(d) == [d EXCEPT !.lead = <<"L:header">>, !.trail = <<"L:footer">>]
PlainSeeds == { D(w, l, b) : w \in SeedWraps, l \in SeedLayers, b \in SeedBodies }
Seeds == PlainSeeds \cup { WithFileTrivia(d) : d \in {e \in PlainSeeds : Len(e.body.items) <= 1} }

-----------------------------------------------------------------------------
(* Operations relevant in a state.                                          *)
ItemsAt(d, sel) == IF sel = 0 THEN d.body.items ELSE d.layers[Len(d.layers) - sel + 1]
HasLayer(d, sel) == sel = 0 \/ sel <= Len(d.layers)

RECURSIVE AllPrefixes(_)
AllPrefixes(p) == IF Len(p) <= 1 THEN {p} ELSE {p} \cup AllPrefixes(SubSeq(p, 1, Len(p) - 1))
DefSet(I) == LET d == DefsOf(I) IN {d[i] : i \in 1..Len(d)}
RelevantPaths(I) ==
    LET defs == DefSet(I) IN
    (UNION {AllPrefixes(p) : p \in defs})
      \cup { <<"z">>, <<"z", "y">>, <<"z", "y", "x">> }                    \* fresh
      \cup { p \o <<"q">> : p \in defs }                                     \* below an existing path
      \cup { SubSeq(p, 1, Len(p) - 1) \o <<"n">> : p \in {q \in defs : Len(q) > 1} }   \* fresh sibling in a family / set
      \cup { SubSeq(p, 1, Len(p) - 1) \o <<"n", "m">> : p \in {q \in defs : Len(q) > 1} } \* two fresh segments below an existing set
NewValues == { IntV(7), SetV(FALSE, <<B(<<"k">>, IntV(7))>>), OpqV("[ 1 2 ]") }

\* Malformed requests (C08: "empty or malformed path", "invalid value").  `bad' names the malformation; the
\* concretizer spells it (harness/engines/edit.py BAD_PATH / BAD_VALUE); path and v say what the request was
\* derived from.  They must be refused whatever the document looks like, and leave it as it was.
BadPaths == {"path:empty", "path:empty_segment", "path:trailing_dot", "path:leading_dot", "path:unterminated_quote",
             "path:dangling_escape", "path:not_identifier", "path:scope_in_segment"}
BadValues == {"value:suite",       \* (an invalid value text recorded from the repository's own tests)
              "value:empty", "value:comment_only", "value:unclosed", "value:dangling_operator", "value:stray_close",
              "value:two_statements"}
BadOps(d) ==
    LET sels == 0..(IF Len(d.layers) >= 1 THEN 2 ELSE 1)
        base(s) == LET I == IF HasLayer(d, s) THEN ItemsAt(d, s) ELSE <<>>
                       ex == {q \in DefSet(I) : Inherited(I, q) = {}} IN
                   {<<"z">>} \cup (IF ex = {} THEN {} ELSE {CHOOSE q \in ex : TRUE}) IN
    UNION { { [f |-> g, sel |-> s, path |-> p, v |-> IntV(7), bad |-> b] : g \in {"set", "rm"}, p \in base(s), b \in BadPaths }
              \cup { [f |-> "set", sel |-> s, path |-> p, v |-> IntV(7), bad |-> b] : p \in base(s), b \in BadValues }
          : s \in sels }

Ops(d) ==
    LET sels == 0..(Len(d.layers) + 2) IN
    UNION { LET I == IF HasLayer(d, s) THEN ItemsAt(d, s) ELSE <<>> IN
            \* a name introduced by `inherit' is a reference into the enclosing scope: editing it is C11's business
            { [f |-> "set", sel |-> s, path |-> p, v |-> v, bad |-> ""] : p \in {q \in RelevantPaths(I) : Inherited(I, q) = {}}, v \in NewValues }
              \cup { [f |-> "rm", sel |-> s, path |-> p, v |-> IntV(0), bad |-> ""] : p \in {q \in RelevantPaths(I) : Inherited(I, q) = {}} }
          : s \in sels }
    \cup BadOps(d)

-----------------------------------------------------------------------------
(* The specified outcome of an operation.                                   *)
Refusal(d, o) ==
    IF o.bad # "" THEN "malformed"
    ELSE IF d.shape # "ok" THEN "no_target"
    ELSE IF o.sel > 0 /\ o.sel > Len(d.layers) /\ ~(o.sel = 1 /\ d.layers = <<>> /\ o.f = "set") THEN "no_layer"
    ELSE LET I == IF HasLayer(d, o.sel) THEN ItemsAt(d, o.sel) ELSE <<>> IN
         IF o.f = "set" THEN SetRefusal(I, o.path) ELSE RmRefusal(I, o.path)

ErrorClass(reason) == IF reason \in {"missing", "family"} THEN "KeyError" ELSE "ValueError"

WithItems(d, sel, J) ==
    IF sel = 0 THEN [d EXCEPT !.body.items = J]
    ELSE IF sel > Len(d.layers) THEN [d EXCEPT !.layers = Append(@, J)]        \* created innermost layer
    ELSE LET i == Len(d.layers) - sel + 1 IN
         IF J = <<>> THEN [d EXCEPT !.layers = RemoveAt(@, i)]                 \* emptied layer is pruned
         ELSE [d EXCEPT !.layers[i] = J]

Apply(d, o) ==
    LET r == Refusal(d, o) IN
    IF r # "none" THEN [doc |-> d, res |-> ErrorClass(r), why |-> r]
    ELSE LET I == IF HasLayer(d, o.sel) THEN ItemsAt(d, o.sel) ELSE <<>> IN
         LET J == IF o.f = "set" THEN SetIn(I, o.path, o.v, TRUE) ELSE RmIn(I, o.path) IN
         [doc |-> WithItems(d, o.sel, J), res |-> "ok", why |-> "none"]

-----------------------------------------------------------------------------
Init == doc \in Seeds /\ last = [f |-> "init"] /\ n = 0 /\ hist = [seed |-> doc, steps |-> <<>>]

Do(o) == LET a == Apply(doc, o) IN
         /\ doc' = a.doc
         /\ last' = [f |-> o.f, sel |-> o.sel, path |-> o.path, v |-> o.v, bad |-> o.bad, res |-> a.res, why |-> a.why, pre |-> doc]
         /\ n' = n + 1
         /\ hist' = [hist EXCEPT !.steps = Append(@, [op |-> o, res |-> a.res, why |-> a.why, post |-> a.doc])]

Set    == n < MaxDepth /\ \E o \in Ops(doc) : o.f = "set" /\ Refusal(doc, o) = "none" /\ Do(o)
Rm     == n < MaxDepth /\ \E o \in Ops(doc) : o.f = "rm"  /\ Refusal(doc, o) = "none" /\ Do(o)
Reject == n < MaxDepth /\ \E o \in Ops(doc) : Refusal(doc, o) # "none" /\ Do(o)
Next == Set \/ Rm \/ Reject
Spec == Init /\ [][Next]_vars
View == <<doc, n>>

-----------------------------------------------------------------------------
(* Properties, as invariants over (last.pre, last, doc): they speak about   *)
(* the transition that produced the current state.                          *)
Stepped == last.f \in {"set", "rm"}
Ok == Stepped /\ last.res = "ok"
PreI == IF HasLayer(last.pre, last.sel) THEN ItemsAt(last.pre, last.sel) ELSE <<>>
Created == Ok /\ last.sel > Len(last.pre.layers)
Pruned == Ok /\ last.sel > 0 /\ Len(doc.layers) < Len(last.pre.layers)
PostI == IF Pruned THEN <<>> ELSE ItemsAt(doc, last.sel)

C04_Frame == Ok => IF last.f = "set" THEN SetFrame(PreI, PostI, last.path) ELSE RmFrame(PreI, PostI, last.path)
C05_Effect == Ok => IF last.f = "set" THEN SetEffect(PreI, PostI, last.path, last.v) ELSE RmEffect(PreI, PostI, last.path)
C05_Form == (Ok /\ last.f = "set") => SetForm(PreI, PostI, last.path) /\ FreshGoesLast(PreI, PostI, last.path)
C05_NoDuplicate == (Ok /\ NoDuplicate(PreI)) => NoDuplicate(PostI)
C05_RefusalReasons == (Stepped /\ last.res # "ok") =>
                         last.why \in {"missing", "family", "non_set", "attrpath_root", "no_layer", "no_target", "malformed"}
C08_Atomic == (Stepped /\ last.res # "ok") => doc = last.pre
C08_ErrorClass == Stepped => last.res \in {"ok", "KeyError", "ValueError"}
\* C09: the other layers, the body and the wrappers are untouched; creation adds one innermost layer; an
\* emptied layer disappears and only it
OthersUntouched(d, e, sel) ==
    /\ d.wrap = e.wrap /\ (sel # 0 => d.body = e.body)
    /\ (sel = 0 => d.layers = e.layers)
C09_Addressing == Ok =>
    /\ OthersUntouched(last.pre, doc, last.sel)
    /\ (last.sel > 0 /\ ~Created /\ ~Pruned) =>
          /\ Len(doc.layers) = Len(last.pre.layers)
          /\ \A i \in 1..Len(doc.layers) : i # Len(doc.layers) - last.sel + 1 => doc.layers[i] = last.pre.layers[i]
    /\ Created => (last.sel = 1 /\ last.pre.layers = <<>> /\ Len(doc.layers) = 1)
    /\ Pruned => doc.layers = RemoveAt(last.pre.layers, Len(last.pre.layers) - last.sel + 1)

\* C19 (laws of the reference semantics, checked at every reachable document)
SetOps(d) == {o \in Ops(d) : o.f = "set" /\ Refusal(d, o) = "none"}
C19_Idempotent == n <= LawDepth => \A o \in SetOps(doc) : Apply(Apply(doc, o).doc, o).doc = Apply(doc, o).doc
Fresh1(d, o) == LET I == IF HasLayer(d, o.sel) THEN ItemsAt(d, o.sel) ELSE <<>> IN
                Len(o.path) = 1 /\ Exact(I, o.path) = {} /\ Through(I, o.path) = {} /\ Beyond(I, o.path) = {}
C19_SetRm == n <= LawDepth => \A o \in SetOps(doc) : Fresh1(doc, o) =>
                 Apply(Apply(doc, o).doc, [o EXCEPT !.f = "rm"]).doc = doc
Existing(d, o) == LET I == IF HasLayer(d, o.sel) THEN ItemsAt(d, o.sel) ELSE <<>> IN Exact(I, o.path) # {}
C19_Commute == n <= LawDepth => \A o1, o2 \in {o \in SetOps(doc) : Existing(doc, o) /\ o.v = IntV(7)} :
                 (o1.sel # o2.sel \/ (~IsPrefix(o1.path, o2.path) /\ ~IsPrefix(o2.path, o1.path))) =>
                   Apply(Apply(doc, o1).doc, o2).doc = Apply(Apply(doc, o2).doc, o1).doc

\* emission for direction A (ACTION_CONSTRAINT): one JSON line per generated transition
Emit == PrintT(ToJson([pre |-> doc, op |-> [f |-> last'.f, sel |-> last'.sel, path |-> last'.path, v |-> last'.v, bad |-> last'.bad],
                       res |-> last'.res, why |-> last'.why, post |-> doc', n |-> n']))
\* emission of whole histories (INVARIANT in -simulate mode: printed for the behaviours TLC actually walks)
EmitHist == (n = MaxDepth) => PrintT(ToJson(hist))
=============================================================================
