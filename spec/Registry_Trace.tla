---------------------------- MODULE Registry_Trace ----------------------------
(* Validates recorded registry events against Registry.tla's intent.  events: [ev, addr, serial, ctx] with              *)
(*   store (context ctx stored for object serial at addr), hit (Get answered ctx for object serial at addr),             *)
(*   death (object serial died; reported by the harness's own weak reference), clear / stale / callback (addr).          *)
EXTENDS Naturals, Sequences, FiniteSets, TLC, Json, IOUtils
Cases == ndJsonDeserialize(IOEnv.TRACE_FILE)
N == Len(Cases)
VARIABLES tid, l, stored, deadS, bad
TInit == tid \in 1..N /\ l = 0 /\ stored = <<>> /\ deadS = {} /\ bad = {}
Put(f, k, v) == [x \in DOMAIN f \cup {k} |-> IF x = k THEN v ELSE f[x]]
TNext == /\ l < Len(Cases[tid].events)
         /\ LET e == Cases[tid].events[l + 1] IN
            /\ stored' = IF e.ev = "store" THEN Put(stored, e.serial, e.ctx) ELSE stored
            /\ deadS' = IF e.ev = "death" THEN deadS \cup {e.serial} ELSE deadS
            /\ bad' = bad \cup
                 (IF e.ev = "hit" /\ e.serial \in deadS THEN {"C10_HitForDeadObject"} ELSE {}) \cup
                 (IF e.ev = "hit" /\ (e.serial \notin DOMAIN stored \/ stored[e.serial] # e.ctx) THEN {"C10_NoStaleContext"} ELSE {})
         /\ l' = l + 1 /\ UNCHANGED tid
TDone == /\ l = Len(Cases[tid].events)
         /\ PrintT(ToJson([id |-> Cases[tid].id, bad |-> bad \cup (IF ~Cases[tid].results_ok THEN {"C10_CrossDocumentResult"} ELSE {})]))
         /\ UNCHANGED <<tid, l, stored, deadS, bad>>
Next == TNext \/ TDone
View == <<tid, l>>
=============================================================================
