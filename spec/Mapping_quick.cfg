INIT MInit
NEXT MNext
VIEW View
CONSTANTS
  MaxDepth = 2
  LawDepth = 0
  SeedBodies <- MapBodies
  SeedLayers <- MapLayers
  SeedWraps <- PlainWrap
INVARIANT C14_SetGet
INVARIANT C14_DelGet
INVARIANT C14_CopyGet
INVARIANT C14_OthersUntouched
INVARIANT C14_MissingKey
CHECK_DEADLOCK FALSE
