INIT TInit
NEXT TNext
CONSTANTS
  MaxHops = 3
  Dirs <- WideDirs
  Names <- QuickNames
  Cwds <- WideCwds
CHECK_DEADLOCK FALSE
