-------------------------------- MODULE Work --------------------------------
(***************************************************************************)
(* C20, complexity half.  A NESTING FAMILY is a sequence of construct kinds *)
(* repeated to depth d (curried lambdas, formals defaults, sets, lists,     *)
(* parentheses, calls, with, assert, let, if, operators, select default).   *)
(* If a construct of kind k renders the child in its hole m[k] times per    *)
(* call of its own renderer, the number of renderer calls obeys             *)
(*      Calls(F, 0) = 1,   Calls(F, n+1) = 1 + m[F[n mod |F|]] * Calls(F,n) *)
(* Polynomial growth means doubling the depth multiplies the work by a      *)
(* constant; exponential growth squares it.  The test                        *)
(*      Poly(c_d, c_2d) == c_2d <= 8 * c_d + 64                              *)
(* separates the two at d = 12 for every family of period <= 3 (TLC checks this on the model for     *)
(* every family and every assignment of multiplicities 1 / 2).               *)
(* The counts are MEASURED from the real code (every renderer wrapped by a  *)
(* counter) and judged here; wall-clock time is only a guard.               *)
(***************************************************************************)
EXTENDS Naturals, Sequences, FiniteSets, TLC, Json

Kinds == {"lam", "formals_default", "formals_body", "set", "list", "paren", "call", "with", "assert", "let_value", "let_body",
          "if_then", "if_else", "binary", "select_default", "update",
          "with_ml", "formals_body_ml", "lam_ml", "inherit_src", "call_tight", "list_ml", "set_ml", "let_body_ml", "paren_ml",
          "impl_ml", "update_ml", "concat_ml", "plus_ml", "and_ml"}
\* how a frame of each kind wraps an expression E (text templates: prefix, suffix); the harness only concatenates
Frame == [ lam |-> <<"x: ", "">>, formals_default |-> <<"{ a ? ", " }: a">>, formals_body |-> <<"{ a }: ", "">>,
           set |-> <<"{ a = ", "; }">>, list |-> <<"[ (", ") ]">>, paren |-> <<"(", ")">>, call |-> <<"f (", ")">>,
           with |-> <<"with p; ", "">>, assert |-> <<"assert c; ", "">>, let_value |-> <<"let a = ", "; in a">>,
           let_body |-> <<"let a = 1; in ", "">>, if_then |-> <<"if c then ", " else 0">>, if_else |-> <<"if c then 0 else ", "">>,
           binary |-> <<"1 + (", ")">>, select_default |-> <<"a.b or (", ")">>, update |-> <<"{ } // (", ")">>,
           \* the same constructs with the child on a line of its own, a tight call `f(x)', the source of an inherit-from
           with_ml |-> <<"with p;\n", "">>, formals_body_ml |-> <<"{ a }:\n", "">>, lam_ml |-> <<"x:\n", "">>,
           inherit_src |-> <<"{ inherit (", ") x; }">>, call_tight |-> <<"f(", ")">>,
           list_ml |-> <<"[\n(", ")\n]">>, set_ml |-> <<"{\na = ", ";\n}">>, let_body_ml |-> <<"let\na = 1;\nin\n", "">>,
           paren_ml |-> <<"(\n", "\n)">>,
           \* operator chains without parentheses, broken behind the operator (right- and left-associative ones)
           impl_ml |-> <<"a ->\n", "">>, update_ml |-> <<"{ } //\n", "">>, concat_ml |-> <<"[ ] ++\n", "">>,
           plus_ml |-> <<"1 +\n", "">>, and_ml |-> <<"a &&\n", "">> ]

Poly(c1, c2) == c2 <= 8 * c1 + 64

RECURSIVE Calls(_, _, _)
Calls(F, m, n) == IF n = 0 THEN 1 ELSE 1 + m[F[((n - 1) % Len(F)) + 1]] * Calls(F, m, n - 1)

\* ---- bounded model: families of period <= MaxPeriod over ModelKinds with multiplicities 1 or 2
CONSTANTS MaxPeriod, ModelKinds, D
VARIABLES fam, mult
Init == /\ \E p \in 1..MaxPeriod : fam \in [1..p -> ModelKinds]
        /\ mult \in [ModelKinds -> {1, 2}]
Next == UNCHANGED <<fam, mult>>
AllOnes == \A i \in 1..Len(fam) : mult[fam[i]] = 1
\* the test is sound and complete on the model: it passes exactly for the families whose cycle has multiplicity 1
TestSeparates == AllOnes <=> Poly(Calls(fam, mult, D), Calls(fam, mult, 2 * D))
\* ---- enumeration of the real families (all kinds) for the harness
FamInit == /\ \E p \in 1..MaxPeriod : fam \in [1..p -> Kinds]
           /\ mult = [k \in ModelKinds |-> 1]
FamNext == UNCHANGED <<fam, mult>>
Emit == PrintT(ToJson([fam |-> fam, frames |-> [i \in 1..Len(fam) |-> Frame[fam[i]]]]))
=============================================================================
