INIT TInit
NEXT Next
VIEW View
CHECK_DEADLOCK FALSE
