SPECIFICATION Spec
CONSTANTS
  Threads = {1, 2, 3}
  GapReads = 1
  SharedParser = FALSE
  GlobalBytes = FALSE
INVARIANT C15_Isolation
INVARIANT C15_ParserExclusive
CHECK_DEADLOCK FALSE
