SPECIFICATION Spec
CONSTANTS
  AlwaysTerminate = FALSE
  MaxRuns = 3
INVARIANT C16_ErrorSilent
INVARIANT C16_TestAcceptsEditOutput
PROPERTY C16_NewlineStable
CHECK_DEADLOCK FALSE
