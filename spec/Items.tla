------------------------------- MODULE Items -------------------------------
(***************************************************************************)
(* A Nix source file as the properties talk about it: a sequence of ITEMS. *)
(*   code token  [k |-> "t", c |-> class, s |-> text, n |-> normalised]     *)
(*   comment     [k |-> "c", s |-> wording, ml |-> multi-line, kind]        *)
(*   gap         [k |-> "g", nl, sp, tab, tr, ot]                           *)
(* A stream always alternates  gap, item, gap, item, ..., gap.              *)
(* Classes: "id" identifier, "lit" literal / string or path content,        *)
(* "int" integer literal (n = text without leading zeros), "kw" keyword,    *)
(* "op" operator, "dl" delimiter.                                           *)
(* The projection harness/project.py produces these streams from text by    *)
(* walking the tree-sitter CST; nothing of nix-manipulator is involved.     *)
(***************************************************************************)
EXTENDS Naturals, Sequences, FiniteSets

IsTok(x) == x.k = "t"
IsCmt(x) == x.k = "c"
IsGap(x) == x.k = "g"

Toks(s) == SelectSeq(s, IsTok)
Cmts(s) == SelectSeq(s, IsCmt)
Gaps(s) == SelectSeq(s, IsGap)

IsDelim(x) == IsTok(x) /\ x.c = "dl"
\* identifiers, literals, keywords, operators: what a comment may never cross (C03)
IsSolid(x) == IsTok(x) /\ x.c # "dl"

Map(s, F(_)) == [i \in 1..Len(s) |-> F(s[i])]
TokText(x) == x.n
CmtKey(x)  == x.s

-----------------------------------------------------------------------------
(* Spacing normal form of one gap (C18).  `left' / `right' are the          *)
(* neighbouring items ("BOF"/"EOF" records at the ends).                    *)

Bof == [k |-> "bof"]
Eof == [k |-> "eof"]

NormalGap(g, left, right) ==
  g.q \/                                         \* string contents are exempt
    /\ ~g.tab                                   \* no tab
    /\ ~g.tr                                    \* no whitespace at end of line
    /\ ~g.ot                                    \* nothing but blanks and newlines
    /\ g.nl <= 2                                \* at most one blank line
    /\ (g.nl = 0 => g.sp <= 1)                  \* one or zero spaces on a line
    /\ (left.k = "bof" => (g.nl = 0 /\ g.sp = 0))   \* nothing before the first token
    /\ (right.k = "t" /\ right.s \in {";", ":"} /\ g.nl = 0 /\ left.k = "t" => g.sp = 0)

GapClauses(g, left, right) ==
  IF g.q THEN {} ELSE
    (IF g.tab THEN {"tab"} ELSE {}) \cup
    (IF g.tr THEN {"trailing_space"} ELSE {}) \cup
    (IF g.ot THEN {"non_blank_in_gap"} ELSE {}) \cup
    (IF g.nl > 2 THEN {"blank_run"} ELSE {}) \cup
    (IF g.nl = 0 /\ g.sp > 1 THEN {"space_run"} ELSE {}) \cup
    (IF left.k = "bof" /\ (g.nl > 0 \/ g.sp > 0) THEN {"leading_space"} ELSE {}) \cup
    (IF right.k = "t" /\ left.k = "t" /\ g.nl = 0 /\ g.sp > 0 /\ right.s \in {";", ":"}
        THEN {"detached_" \o (IF right.s = ";" THEN "semicolon" ELSE "colon")} ELSE {})

Left(s, i)  == IF i = 1 THEN Bof ELSE s[i-1]
Right(s, i) == IF i = Len(s) THEN Eof ELSE s[i+1]

AllGapsNormal(s) == \A i \in 1..Len(s) : IsGap(s[i]) => NormalGap(s[i], Left(s, i), Right(s, i))
BadGapClauses(s) == UNION {GapClauses(s[i], Left(s, i), Right(s, i)) : i \in {j \in 1..Len(s) : IsGap(s[j])}}
FirstBadGap(s) ==
    LET bad == {i \in 1..Len(s) : IsGap(s[i]) /\ ~NormalGap(s[i], Left(s, i), Right(s, i))}
    IN IF bad = {} THEN 0 ELSE CHOOSE i \in bad : \A j \in bad : i <= j
-----------------------------------------------------------------------------
(* C18, indentation clause.  `ls' is the sequence of lines of a text that   *)
(* start with an own-line comment, a closing delimiter or code (projection  *)
(* line_info): [kind, ind, open_ind].                                        *)
(*  - a closing delimiter that starts a line is indented like the line on   *)
(*    which its opener stands;                                               *)
(*  - an own-line comment is indented like the next code line, or, when the  *)
(*    next line is a closing delimiter, two columns deeper than it; lines    *)
(*    that start with an operator or in / then / else constrain nothing.     *)
NextHard(ls, i) == LET later == {j \in (i + 1)..Len(ls) : ls[j].kind \in {"code", "close", "soft"}} IN
                   IF later = {} THEN 0 ELSE CHOOSE j \in later : \A k \in later : j <= k
LineOK(ls, i) ==
    CASE ls[i].kind = "close" -> ls[i].ind = ls[i].open_ind
      [] ls[i].kind = "comment" ->
            LET j == NextHard(ls, i) IN
            \/ j = 0 \/ ls[j].kind = "soft"
            \/ (ls[j].kind = "code" /\ ls[i].ind = ls[j].ind)
            \/ (ls[j].kind = "close" /\ ls[i].ind = ls[j].ind + 2)
      [] OTHER -> TRUE
C18_IndentOK(ls) == \A i \in 1..Len(ls) : LineOK(ls, i)
FirstBadLine(ls) == LET bad == {i \in 1..Len(ls) : ~LineOK(ls, i)} IN IF bad = {} THEN 0 ELSE CHOOSE i \in bad : \A j \in bad : i <= j
=============================================================================
