---------------------------- MODULE Mapping_Trace ----------------------------
(* Judges recorded get / set / del histories on ONE document object against Mapping.tla.                        *)
(* step == [op : [m, s, k, v], res, post : Doc, reported : Seq(key) (keys of the universe whose lookup on the   *)
(*          surface succeeds after the step), surface_ok (the surface could be reached afterwards),             *)
(*          got : the value read back right after a set (as a Val; [k |-> "none"] otherwise), universe]          *)
EXTENDS Mapping, IOUtils

Cases == ndJsonDeserialize(IOEnv.TRACE_FILE)
N == Len(Cases)
VARIABLES tid, l

SameVal(a, b) == IF IsSet(a) /\ IsSet(b) THEN ValTree(a) = ValTree(b) ELSE a = b

Clauses(pre, e) ==
    LET o == e.op
        ref == MApply(pre, o)
        post == e.post
        okS == SurfaceOK(post, o.s)
        J == IF okS THEN SurfaceItems(post, o.s) ELSE <<>>
        I == IF SurfaceOK(pre, o.s) THEN SurfaceItems(pre, o.s) ELSE <<>>
        reported == {e.reported[i] : i \in 1..Len(e.reported)}
        universe == {e.universe[i] : i \in 1..Len(e.universe)}
    IN
    IF ref.res = "unspecified" THEN {}
    ELSE IF ref.res = "raises" THEN
        (IF e.res = "ok" THEN {"C14_NonMapping"} ELSE {}) \cup (IF post # pre THEN {"C14_NonMapping_Changed"} ELSE {})
    ELSE IF ref.res = "KeyError" THEN
        (IF e.res # "KeyError" THEN {"C14_MissingKey"} ELSE {}) \cup (IF post # pre THEN {"C14_MissingKey_Changed"} ELSE {})
    ELSE
        (IF e.res # "ok" THEN {"C14_Refused"} ELSE
          (IF o.m = "set" /\ (~okS \/ MTree(J, o.k) # ValTree(o.v)) THEN {"C14_SetShownInText"} ELSE {}) \cup
          (IF o.m = "set" /\ ~SameVal(e.got, o.v) THEN {"C14_SetGet"} ELSE {}) \cup
          (IF o.m = "copy" /\ (~okS \/ MTree(J, o.k) # MTree(I, o.v.n)) THEN {"C14_CopyShownInText"} ELSE {}) \cup
          (IF o.m = "del" /\ (o.k \in MKeys(J) \/ o.k \in reported) THEN {"C14_DelGet"} ELSE {}) \cup
          (IF o.m = "get" /\ post # pre THEN {"C14_GetChanges"} ELSE {}) \cup
          (IF okS /\ ~(\A k \in (MKeys(I) \cup MKeys(J)) \ {o.k} : MTree(J, k) = MTree(I, k) /\ (k \in MKeys(I) <=> k \in MKeys(J)))
              THEN {"C14_OthersUntouched"} ELSE {}) \cup
          (IF okS /\ e.surface_ok /\ reported # (MKeys(J) \cap universe) THEN {"C14_TextAgrees"} ELSE {}))

TInit == /\ tid \in 1..N /\ l = 0 /\ doc = Cases[tid].seed
         /\ last = [f |-> "init"] /\ n = 0 /\ hist = <<>>
TNext == /\ l < Len(Cases[tid].steps)
         /\ LET e == Cases[tid].steps[l + 1] IN
            /\ PrintT(ToJson([id |-> Cases[tid].id, l |-> l + 1, bad |-> Clauses(doc, e),
                               \* a write through a synthesized view may leave state the text does not show: the rest of
                               \* such a history is not judged
                               unspec |-> MApply(doc, e.op).res = "unspecified" /\ e.op.m # "get"]))
            /\ doc' = e.post
         /\ l' = l + 1 /\ UNCHANGED <<tid, last, n, hist>>
TView == <<tid, l>>
=============================================================================
