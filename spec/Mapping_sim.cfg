INIT MInit
NEXT MNext
CONSTANTS
  MaxDepth = 4
  LawDepth = 0
  SeedBodies <- MapBodies
  SeedLayers <- MapLayers
  SeedWraps <- PlainWrap
INVARIANT MEmitHist
INVARIANT C14_SetGet
INVARIANT C14_OthersUntouched
CHECK_DEADLOCK FALSE
