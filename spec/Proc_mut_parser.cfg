SPECIFICATION Spec
CONSTANTS
  Threads = {1, 2}
  GapReads = 2
  SharedParser = TRUE
  GlobalBytes = FALSE
INVARIANT C15_Isolation
INVARIANT C15_ParserExclusive
CHECK_DEADLOCK FALSE
