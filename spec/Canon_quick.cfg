INIT Init
NEXT Next
CONSTANTS
  MaxItems = 1
  MaxDepth = 1
  LitSet <- QuickLits
INVARIANT Emit
CHECK_DEADLOCK FALSE
