INIT Init
NEXT Next
CONSTANTS
  MaxItems = 1
  MaxDepth = 1
  GapSet <- LetGaps
  LitSet <- QuickLits
INVARIANT Emit
CHECK_DEADLOCK FALSE
