----------------------------- MODULE Fmt_Trace -----------------------------
(***************************************************************************)
(* Trace validation for the formatter: every recorded execution            *)
(*      inp  --parse;rebuild-->  out  (--parse;rebuild--> out2)             *)
(* of the real code is (i) replayed through the transducer of Fmt.tla - it  *)
(* is accepted iff `out' is an output the transducer can produce for `inp' -*)
(* and (ii) judged clause by clause with Fmt's declarative predicates.      *)
(* Thousands of executions are batched per JVM: `tid' selects the case;     *)
(* each case is a separate behaviour starting in its own initial state.     *)
(* Verdicts are PRINTED (one JSON line per case), never asserted, so that   *)
(* every case is judged and the harness can name the failing clause.        *)
(***************************************************************************)
EXTENDS Fmt, Json, IOUtils

Cases == ndJsonDeserialize(IOEnv.TRACE_FILE)
N == Len(Cases)

VARIABLE tid
tvars == <<vars, tid>>

Obs == Cases[tid].out
TraceGC(o) == IF Len(o) + 1 <= Len(Obs) /\ IsGap(Obs[Len(o) + 1]) THEN {Obs[Len(o) + 1]} ELSE {}

TraceInit == /\ tid \in 1..N
             /\ InitWith({Cases[tid].inp})

\* one transducer step whose emission agrees with the observed output
Step == /\ NextWith(TraceGC)
        /\ IsPrefix(out', Obs)
        /\ UNCHANGED tid

Accepted == Complete /\ out = Obs
Accept == /\ Accepted
          /\ PrintT(ToJson([id |-> Cases[tid].id, acc |-> TRUE]))
          /\ UNCHANGED tvars

\* declarative clauses, evaluated once per case (in its initial state)
Verdict(c) ==
    [ id  |-> c.id,
      c01 |-> C01_TokensPreserved(c.inp, c.out),
      c03_once  |-> C03_EachOnceInOrder(c.inp, c.out),
      c03_sides |-> C03_Sides(c.inp, c.out),
      c18 |-> C18_Normal(c.out),
      c18_clauses |-> BadGapClauses(c.out),
      c18_at |-> FirstBadGap(c.out),
      c18_indent |-> C18_IndentOK(c.lines),
      c18_line |-> IF C18_IndentOK(c.lines) THEN [kind |-> "-", ind |-> 0, open_ind |-> 0] ELSE c.lines[FirstBadLine(c.lines)],
      c06_pre |-> LineLevelComments(c.inp),
      c06 |-> c.o1 = c.o2,
      c06_test |-> ~c.err2,          \* "... so `nima test' accepts it": the library does not flag its own output as erroneous
      c02 |-> c.t0 = c.o1 /\ c.inp = c.out ]        \* canonical mode: the transducer is the identity
Judge == /\ pt = 1 /\ pc = 1 /\ out = <<>>
         /\ PrintT(ToJson(Verdict(Cases[tid])))
         /\ UNCHANGED tvars

TraceNext == Step \/ Accept \/ Judge
View == <<tid, pt, pc, Len(out), addc>>

\* second pass (rejected cases only): print every reached frontier so the harness can localise the rejection
Frontier == PrintT(ToJson([id |-> Cases[tid].id, pt |-> pt, pc |-> pc, lo |-> Len(out),
                           ntok |-> Len(TI), ncmt |-> Len(CI)]))
=============================================================================
