INIT Init
NEXT Next
VIEW View
CONSTANTS
  MaxDepth = 2
  LawDepth = 1
  SeedBodies <- Bodies
  SeedLayers <- LayerStacks
  SeedWraps <- PlainWrap
INVARIANT C04_Frame
INVARIANT C05_Effect
INVARIANT C05_Form
INVARIANT C05_NoDuplicate
INVARIANT C05_RefusalReasons
INVARIANT C08_Atomic
INVARIANT C08_ErrorClass
INVARIANT C09_Addressing
INVARIANT C19_Idempotent
INVARIANT C19_SetRm
INVARIANT C19_Commute
CHECK_DEADLOCK FALSE
