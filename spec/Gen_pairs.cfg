INIT Init
NEXT Next
CONSTANTS
  Mode = "pairs"
  Wide = FALSE
ACTION_CONSTRAINT EmitDone
INVARIANT TypeOK
CHECK_DEADLOCK FALSE
