INIT Init
NEXT Next
CONSTANTS
  MaxFrames = 3
  EmitCases = FALSE
INVARIANT Thm_LetBeatsWith
INVARIANT Thm_InnermostWins
INVARIANT Thm_PlainSetsInvisible
INVARIANT Thm_Total
CHECK_DEADLOCK FALSE
