INIT TraceInit
NEXT TraceStep
VIEW TraceView
CONSTANTS
  MaxDepth = 1
  LawDepth = 0
  SeedBodies <- Bodies
  SeedLayers <- LayerStacks
  SeedWraps <- PlainWrap
CHECK_DEADLOCK FALSE
