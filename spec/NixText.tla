------------------------------ MODULE NixText ------------------------------
(***************************************************************************)
(* Text-level rules behind C12 (and C13): attribute names, NPath syntax,    *)
(* Nix string escaping.  Text is a sequence of one-character strings.       *)
(*                                                                          *)
(*  - the NPath tokenizer as a labelled state machine (modes bare / quoted  *)
(*    / escape), one action per branch, so that TLC's coverage says which   *)
(*    branch each enumerated path text exercised;                           *)
(*  - SegText(name): how a name is spelled as a path segment;               *)
(*  - AttrText(name): how a name must be spelled in the file;               *)
(*  - NixDecode(text): what Nix reads for an attribute token.               *)
(* TLC checks  NixDecode(AttrText(n)) = n  and  Tokenize(Join(SegText(..))) *)
(* = names  for every name over the character classes up to a length bound. *)
(***************************************************************************)
EXTENDS Naturals, Sequences, FiniteSets, SequencesExt, TLC

Letters == {"a", "n", "Z", "i", "f", "t", "h", "e", "l", "s", "r", "w", "c"}    \* "n" doubles as escape letter (\n)
\* words the Nix grammar reserves: as attribute names in the FILE they must be quoted (a path segment may be bare)
Keywords == { <<"i", "f">>, <<"t", "h", "e", "n">>, <<"e", "l", "s", "e">>, <<"a", "s", "s", "e", "r", "t">>,
              <<"w", "i", "t", "h">>, <<"l", "e", "t">>, <<"i", "n">>, <<"r", "e", "c">>,
              <<"i", "n", "h", "e", "r", "i", "t">> }
Digits == {"0"}
IdentStart(c) == c \in Letters \cup {"_"}
IdentRest(c) == c \in Letters \cup Digits \cup {"_", "'"}
\* NPath bare segment: [A-Za-z_][A-Za-z0-9_']*
IsIdent(s) == s # <<>> /\ IdentStart(s[1]) /\ \A i \in 2..Len(s) : IdentRest(s[i])
\* a name Nix accepts without quotes in the file: additionally `-' after the first character
IsNixBare(s) == s # <<>> /\ IdentStart(s[1]) /\ \A i \in 2..Len(s) : IdentRest(s[i]) \/ s[i] = "-"

Flat(ss) == FoldLeft(LAMBDA acc, x : acc \o x, <<>>, ss)

-----------------------------------------------------------------------------
(* Spelling of a name as a path segment and in the file.                    *)
RECURSIVE EscSeg(_)
EscSeg(s) == IF s = <<>> THEN <<>> ELSE
             (IF s[1] \in {"\"", "\\"} THEN <<"\\", s[1]>> ELSE <<s[1]>>) \o EscSeg(Tail(s))
SegText(name) == IF IsIdent(name) THEN name ELSE <<"\"">> \o EscSeg(name) \o <<"\"">>

RECURSIVE JoinDots(_)
JoinDots(ss) == IF Len(ss) = 1 THEN ss[1] ELSE ss[1] \o <<".">> \o JoinDots(Tail(ss))
PathText(names) == JoinDots([i \in 1..Len(names) |-> SegText(names[i])])

RECURSIVE EscAttr(_)
EscAttr(s) ==
    IF s = <<>> THEN <<>>
    ELSE IF s[1] = "\\" THEN <<"\\", "\\">> \o EscAttr(Tail(s))
    ELSE IF s[1] = "\"" THEN <<"\\", "\"">> \o EscAttr(Tail(s))
    ELSE IF s[1] = "\n" THEN <<"\\", "n">> \o EscAttr(Tail(s))
    ELSE IF s[1] = "\r" THEN <<"\\", "r">> \o EscAttr(Tail(s))
    ELSE IF s[1] = "\t" THEN <<"\\", "t">> \o EscAttr(Tail(s))
    ELSE IF s[1] = "$" /\ Len(s) > 1 /\ s[2] = "{" THEN <<"\\", "$", "{">> \o EscAttr(Tail(Tail(s)))
    ELSE <<s[1]>> \o EscAttr(Tail(s))
\* reference spelling in the file (any spelling that decodes to the name is acceptable: see C12_RoundTrip)
AttrText(name) == IF IsIdent(name) /\ name \notin Keywords THEN name ELSE <<"\"">> \o EscAttr(name) \o <<"\"">>

-----------------------------------------------------------------------------
(* What Nix reads.                                                          *)
RECURSIVE DecodeBody(_)
DecodeBody(s) ==
    IF s = <<>> THEN <<>>
    ELSE IF s[1] = "\\" /\ Len(s) > 1 THEN
        (IF s[2] = "n" THEN <<"\n">> ELSE IF s[2] = "r" THEN <<"\r">> ELSE IF s[2] = "t" THEN <<"\t">> ELSE <<s[2]>>)
        \o DecodeBody(Tail(Tail(s)))
    ELSE <<s[1]>> \o DecodeBody(Tail(s))
RECURSIVE LiveInterp(_)
LiveInterp(s) ==        \* an unescaped ${ inside a quoted body
    IF Len(s) < 2 THEN FALSE
    ELSE IF s[1] = "\\" THEN LiveInterp(Tail(Tail(s)))
    ELSE IF s[1] = "$" /\ s[2] = "{" THEN TRUE
    ELSE LiveInterp(Tail(s))
Quoted(t) == Len(t) >= 2 /\ t[1] = "\"" /\ t[Len(t)] = "\""
Body(t) == SubSeq(t, 2, Len(t) - 1)
NixDecode(t) == IF Quoted(t) THEN DecodeBody(Body(t)) ELSE t
NixLive(t) == Quoted(t) /\ LiveInterp(Body(t))

-----------------------------------------------------------------------------
(* The NPath tokenizer.                                                     *)
VARIABLES rest, mode, buf, segs, qseg, err
tvars == <<rest, mode, buf, segs, qseg, err>>

TokInit(text) == rest = text /\ mode = "bare" /\ buf = <<>> /\ segs = <<>> /\ qseg = FALSE /\ err = ""

Finalize ==     \* close the current segment (shared by Dot and End)
    IF ~qseg /\ buf = <<>> THEN [e |-> "empty_segment", s |-> segs]
    ELSE IF ~qseg /\ ~IsIdent(buf) THEN [e |-> "not_identifier", s |-> segs]
    ELSE [e |-> "", s |-> Append(segs, buf)]

Running == err = "" /\ rest # <<>>
Advance == rest' = Tail(rest)

Dot == /\ Running /\ mode = "bare" /\ Head(rest) = "."
       /\ LET f == Finalize IN err' = f.e /\ segs' = f.s
       /\ buf' = <<>> /\ qseg' = FALSE /\ mode' = mode /\ Advance
\* (as in the code, only a non-empty buffer forbids a quote: `""""' reopens the quotes of an empty quoted segment)
OpenQuote == /\ Running /\ mode = "bare" /\ Head(rest) = "\"" /\ buf = <<>>
             /\ mode' = "quoted" /\ Advance /\ UNCHANGED <<buf, segs, qseg, err>>
QuoteInside == /\ Running /\ mode = "bare" /\ Head(rest) = "\"" /\ buf # <<>>
               /\ err' = "quote_not_at_boundary" /\ Advance /\ UNCHANGED <<mode, buf, segs, qseg>>
BareChar == /\ Running /\ mode = "bare" /\ Head(rest) \notin {".", "\""}
            /\ buf' = Append(buf, Head(rest)) /\ Advance /\ UNCHANGED <<mode, segs, qseg, err>>
CloseQuote == /\ Running /\ mode = "quoted" /\ Head(rest) = "\""
              /\ mode' = "bare" /\ qseg' = TRUE /\ Advance /\ UNCHANGED <<buf, segs, err>>
Backslash == /\ Running /\ mode = "quoted" /\ Head(rest) = "\\"
             /\ mode' = "escape" /\ Advance /\ UNCHANGED <<buf, segs, qseg, err>>
QuotedChar == /\ Running /\ mode = "quoted" /\ Head(rest) \notin {"\"", "\\"}
              /\ buf' = Append(buf, Head(rest)) /\ Advance /\ UNCHANGED <<mode, segs, qseg, err>>
Escaped == /\ Running /\ mode = "escape"
           /\ LET c == Head(rest) IN
              buf' = buf \o (IF c = "n" THEN <<"\n">> ELSE IF c = "r" THEN <<"\r">> ELSE IF c = "t" THEN <<"\t">>
                             ELSE IF c \in {"\"", "\\"} THEN <<c>> ELSE <<"\\", c>>)
           /\ mode' = "quoted" /\ Advance /\ UNCHANGED <<segs, qseg, err>>
End == /\ err = "" /\ rest = <<>> /\ mode # "done"
       /\ IF mode = "escape" THEN err' = "dangling_escape" /\ UNCHANGED segs
          ELSE IF mode = "quoted" THEN err' = "unterminated_quote" /\ UNCHANGED segs
          ELSE LET f == Finalize IN err' = f.e /\ segs' = f.s
       /\ mode' = "done" /\ UNCHANGED <<rest, buf, qseg>>

TokNext == Dot \/ OpenQuote \/ QuoteInside \/ BareChar \/ CloseQuote \/ Backslash \/ QuotedChar \/ Escaped \/ End
Finished == mode = "done" \/ err # ""

\* the same tokenizer as a function (used by the trace module): runs the machine to completion
RECURSIVE Run(_, _, _, _, _)
Run(r, m, b, ss, q) ==
    IF r = <<>> THEN
        IF m = "escape" THEN [e |-> "dangling_escape", s |-> ss]
        ELSE IF m = "quoted" THEN [e |-> "unterminated_quote", s |-> ss]
        ELSE IF ~q /\ b = <<>> THEN [e |-> "empty_segment", s |-> ss]
        ELSE IF ~q /\ ~IsIdent(b) THEN [e |-> "not_identifier", s |-> ss]
        ELSE [e |-> "", s |-> Append(ss, b)]
    ELSE LET c == Head(r) t == Tail(r) IN
        IF m = "bare" THEN
            IF c = "." THEN
                IF ~q /\ b = <<>> THEN [e |-> "empty_segment", s |-> ss]
                ELSE IF ~q /\ ~IsIdent(b) THEN [e |-> "not_identifier", s |-> ss]
                ELSE Run(t, "bare", <<>>, Append(ss, b), FALSE)
            ELSE IF c = "\"" THEN
                IF b # <<>> THEN [e |-> "quote_not_at_boundary", s |-> ss] ELSE Run(t, "quoted", b, ss, q)
            ELSE Run(t, "bare", Append(b, c), ss, q)
        ELSE IF m = "quoted" THEN
            IF c = "\"" THEN Run(t, "bare", b, ss, TRUE)
            ELSE IF c = "\\" THEN Run(t, "escape", b, ss, q)
            ELSE Run(t, "quoted", Append(b, c), ss, q)
        ELSE Run(t, "quoted",
                 b \o (IF c = "n" THEN <<"\n">> ELSE IF c = "r" THEN <<"\r">> ELSE IF c = "t" THEN <<"\t">>
                       ELSE IF c \in {"\"", "\\"} THEN <<c>> ELSE <<"\\", c>>), ss, q)
Tokenize(text) == IF text = <<>> THEN [e |-> "empty_path", s |-> <<>>] ELSE Run(text, "bare", <<>>, <<>>, FALSE)
=============================================================================
