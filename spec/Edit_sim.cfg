INIT Init
NEXT Next
CONSTANTS
  MaxDepth = 6
  LawDepth = 0
  SeedBodies <- Bodies
  SeedLayers <- LayerStacks
  SeedWraps <- PlainWrap
INVARIANT EmitHist
INVARIANT C04_Frame
INVARIANT C05_Effect
INVARIANT C05_NoDuplicate
INVARIANT C08_Atomic
INVARIANT C09_Addressing
CHECK_DEADLOCK FALSE
