SPECIFICATION Spec
CONSTANTS
  Threads = {1, 2}
  GapReads = 2
  SharedParser = FALSE
  GlobalBytes = TRUE
INVARIANT C15_Isolation
INVARIANT C15_ParserExclusive
CHECK_DEADLOCK FALSE
