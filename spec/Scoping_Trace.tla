--------------------------- MODULE Scoping_Trace ---------------------------
(* Judges recorded resolutions (C10) and edits / assignments through a reference (C11) against Scoping.tla.      *)
(* case == [id, ch (chain projected from the input text), name,                                                  *)
(*          obs  : [res, isint, v, mro],                                                                         *)
(*          edit : [present, res, changed : Seq(<<frame, name>>), newv, xref (x is still the reference),         *)
(*                  xint (x was overwritten with the new literal)],  assign : the same for Identifier.value = .. ] *)
EXTENDS Scoping, Json, IOUtils

Cases == ndJsonDeserialize(IOEnv.TRACE_FILE)
N == Len(Cases)
VARIABLE tid

InMro(e, cls) == \E i \in 1..Len(e.mro) : e.mro[i] = cls

C10Clauses(c) ==
    LET r == Resolve(c.ch, Len(c.ch), c.name, {}) IN
    IF c.obs.res = "CaseTimeout" THEN {"C10_Terminates"}
    ELSE IF r.ok THEN
        (IF c.obs.res # "value" THEN {"C10_RaisedForBoundName"}
         ELSE IF ~c.obs.isint \/ c.obs.v # r.v THEN {"C10_WrongBinding"} ELSE {})
    ELSE
        (IF c.obs.res = "value" THEN {"C10_Resolved_" \o r.why}
         ELSE IF ~InMro(c.obs, "ResolutionError") THEN {"C10_ErrorClass_" \o r.why} ELSE {})

EditClauses(c, e, tag) ==
    IF ~e.present \/ ~Prescribed(c.ch, Len(c.ch), c.name) THEN {} ELSE
    LET ds == DefSite(c.ch, Len(c.ch), c.name) IN
    IF e.res # "ok" THEN
        \* assignment through an identifier that designates no binding has nothing to write to: raising is the
        \* specified outcome there (C11 only prescribes overwriting the path's own binding for `set')
        (IF tag = "assign" /\ ~Resolve(c.ch, Len(c.ch), c.name, {}).ok /\ e.res = "ResolutionError" THEN {} ELSE {"C11_" \o tag \o "_Refused"})
    ELSE IF ds[1] # 0 THEN
        (IF e.changed = << ds >> /\ e.xref THEN {}
         \* a chain that ends in a dangling reference: overwriting the binding at the path is tolerated as well
         ELSE IF ~Resolve(c.ch, Len(c.ch), c.name, {}).ok /\ e.changed = <<>> /\ e.xint THEN {}
         ELSE {"C11_" \o tag \o "_DefSiteOnly"})
    ELSE
        (IF e.changed = <<>> /\ e.xint THEN {} ELSE {"C11_" \o tag \o "_UnboundOverwrites"})

TInit == tid = 0
TNext == /\ tid < N
         /\ LET c == Cases[tid + 1] IN
            PrintT(ToJson([id |-> c.id, c10 |-> C10Clauses(c),
                           c11 |-> EditClauses(c, c.edit, "set") \cup EditClauses(c, c.assign, "assign")]))
         /\ tid' = tid + 1
=============================================================================
