INIT Init
NEXT Next
CONSTANTS
  Mode = "single"
  Wide = TRUE
ACTION_CONSTRAINT EmitDone
INVARIANT TypeOK
CHECK_DEADLOCK FALSE
