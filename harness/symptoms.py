"""Violation signatures for the layout engine: a short, corpus-independent key naming WHERE the
round trip misbehaved (clause, enclosing CST construct, neighbouring token kinds).  Keys identify
known findings; they never decide a verdict (TLC does)."""
from __future__ import annotations

from collections import Counter

from .project import enclosing_type, items_pos, kind_of


def _prev_tok(its, i):
    for j in range(i - 1, -1, -1):
        if its[j]["k"] == "t":
            return its[j]
    return None


def _next_tok(its, i):
    for j in range(i + 1, len(its)):
        if its[j]["k"] == "t":
            return its[j]
    return None


def _around(its, n) -> str:
    """after=<previous token kind>; the following token kind is added only when the previous one is a bare
    identifier / literal (which says little about the site)."""
    a = kind_of(_prev_tok(its, n))
    if a in ("id", "int", "lit", "EOF"):
        return f"after={a}|before={kind_of(_next_tok(its, n))}"
    return f"after={a}"


def c18_key(out: str, at: int, clauses) -> str:
    its, pos = items_pos(out)
    i = at - 1                       # TLC index is 1-based
    left = its[i - 1] if i > 0 else None
    right = its[i + 1] if i + 1 < len(its) else None
    s, e = pos[i]
    parent = enclosing_type(out, s, e)
    lk = "BOF" if left is None else kind_of(left)
    return f"C18|{'+'.join(sorted(clauses))}|{parent}|{lk}|{kind_of(right)}"


def c03_once_key(inp: str, out: str) -> str:
    ii, ip = items_pos(inp)
    oi, op = items_pos(out)
    ic = [(n, x["s"]) for n, x in enumerate(ii) if x["k"] == "c"]
    oc = [(n, x["s"]) for n, x in enumerate(oi) if x["k"] == "c"]
    cin, cout = Counter(s for _, s in ic), Counter(s for _, s in oc)
    for n, s in ic:
        if cout[s] < cin[s]:
            parent = enclosing_type(inp, *ip[n])
            return f"C03_dropped|{parent}|{_around(ii, n)}"
    for n, s in oc:
        if cin[s] < cout[s]:
            parent = enclosing_type(out, *op[n])
            return f"C03_duplicated|{parent}|after={kind_of(_prev_tok(oi, n))}"
    for (n, s), (_, t) in zip(ic, oc):
        if s != t:
            parent = enclosing_type(inp, *ip[n])
            return f"C03_reordered|{parent}|after={kind_of(_prev_tok(ii, n))}"
    return "C03_once|?"


def _solid_view(its):
    toks = [x for x in its if x["k"] == "t"]
    drop = set()
    for a, b in zip(toks, toks[1:]):
        if a["c"] == "kw" and a["s"] == "let" and b["c"] == "kw" and b["s"] == "in":
            drop.add(id(a)); drop.add(id(b))
    view = []
    for n, x in enumerate(its):
        if x["k"] == "c":
            view.append((n, "c:" + x["s"]))
        elif x["k"] == "t" and x["c"] != "dl" and id(x) not in drop:
            view.append((n, "t:" + x["n"]))
    return view


def c03_sides_key(inp: str, out: str) -> str:
    ii, ip = items_pos(inp)
    oi, _ = items_pos(out)
    vi, vo = _solid_view(ii), _solid_view(oi)
    for k, ((n, a), (m, b)) in enumerate(zip(vi, vo)):
        if a != b:
            # the comment involved: whichever of the two differing entries is a comment (input side first)
            if a.startswith("c:"):
                idx = n
            else:
                idx = next((nn for nn, aa in vi[k:] if aa.startswith("c:")), n)
            parent = enclosing_type(inp, *ip[idx])
            return f"C03_moved|{parent}|{_around(ii, idx)}|{'later' if a.startswith('c:') else 'earlier'}"
    return "C03_sides|?"


def _canon(its):
    toks = [x for x in its if x["k"] == "t"]
    out, k = [], 0
    while k < len(toks):
        t = toks[k]
        if k + 1 < len(toks) and t["c"] == "kw" and t["s"] == "let" and toks[k + 1]["c"] == "kw" and toks[k + 1]["s"] == "in":
            k += 2
            continue
        if t["s"] == "," and k + 2 < len(toks) and toks[k + 1]["s"] == "}" and toks[k + 2]["s"] in (":", "@"):
            k += 1
            continue
        out.append(t)
        k += 1
    return out


def c01_key(inp: str, out: str) -> str:
    ii, ip = items_pos(inp)
    oi, _ = items_pos(out)
    ci, co = _canon(ii), _canon(oi)
    for a, b in zip(ci, co):
        if a["n"] != b["n"]:
            n = next(k for k, x in enumerate(ii) if x is a)
            return f"C01_token|{enclosing_type(inp, *ip[n])}|expected={kind_of(a)}|observed={kind_of(b)}"
    if len(ci) > len(co):
        a = ci[len(co)]
        n = next(k for k, x in enumerate(ii) if x is a)
        return f"C01_token|{enclosing_type(inp, *ip[n])}|expected={kind_of(a)}|observed=EOF"
    if len(co) > len(ci):
        return f"C01_token|source_code|expected=EOF|observed={kind_of(co[len(ci)])}"
    return "C01_stepper|?"


def c06_key(out: str, out2: str) -> str:
    n = 0
    m = min(len(out), len(out2))
    while n < m and out[n] == out2[n]:
        n += 1
    b = len(out[:n].encode())
    its, pos = items_pos(out)
    idx = next((k for k, (s, e) in enumerate(pos) if s <= b < e or (s == e == b)), len(its) - 1)
    parent = enclosing_type(out, min(b, len(out.encode())), min(b, len(out.encode())))
    prev = _prev_tok(its, idx + 1 if its[idx]["k"] == "t" and pos[idx][0] < b else idx)
    a = out[n:n + 1] or "EOF"
    c = out2[n:n + 1] or "EOF"
    nm = {"\n": "nl", " ": "sp", "\t": "tab"}
    return f"C06|{parent}|after={kind_of(prev)}|{nm.get(a, 'char')}->{nm.get(c, 'char')}"


def refusal_key(fail: dict) -> str:
    import re
    msg = re.sub(r"[0-9]+", "N", fail.get("msg", ""))[:60]
    return f"raised|{fail['exc']}|{msg}"


def indent_key(out: str, ln: dict) -> str:
    """Signature of a badly indented own-line comment / closing delimiter: kind, enclosing construct, what precedes it."""
    from .project import enclosing_type, items_pos
    at = ln.get("at", 0)
    parent = enclosing_type(out, at, at)
    its, pos = items_pos(out)
    idx = next((k for k, (s, e) in enumerate(pos) if s <= at < e), len(its) - 1)
    prev = _prev_tok(its, idx)
    if ln.get("kind") == "close":
        rel = "deeper" if ln["ind"] > ln["open_ind"] else "shallower"
        return f"C18_Indent|close|{parent}|{rel}_than_opener_line"
    me = its[idx] if its[idx]["k"] == "c" else {"kind": "?"}
    before = next((its[j] for j in range(idx - 1, -1, -1) if its[j]["k"] != "g"), None)
    pk = "BOF" if before is None else ("cmt:" + before["kind"]) if before["k"] == "c" else kind_of(before)
    gap = its[idx - 1] if idx > 0 else {"nl": 0}
    return (f"C18_Indent|comment:{me.get('kind', '?')}|{parent}|prev={pk}|blank_before={gap.get('nl', 0) >= 2}"
            f"|ind={'0' if ln.get('ind', 0) == 0 else 'n'}")
