"""Deterministic cooperative scheduler for real threads: the guarded hooks are the yield points.
A schedule is a sequence of thread indices (from TLC, Proc.tla); at every yield point the running thread hands
control to the thread the schedule names next (skipping finished ones); when the schedule is exhausted the remaining
threads run round-robin.  Runs inside a pool worker (imports the code under test)."""
from __future__ import annotations

import threading

YIELD = {"parser_get", "parser_done", "bytes_enter", "gap_read", "bytes_exit", "path_enter", "path_exit", "path_read",
         "ctx_store", "ctx_hit", "ctx_stale", "ctx_clear", "ctx_callback"}
RECORD = {"parser_get", "parser_done", "bytes_enter", "gap_read", "bytes_exit"}


class Coop:
    def __init__(self, n: int, schedule: list[int], max_yields: int = 400):
        self.n = n
        self.schedule = list(schedule)
        self.pos = 0
        self.cv = threading.Condition()
        self.turn: int | None = None
        self.done = [False] * n
        self.events: list[dict] = []
        self.index: dict[int, int] = {}
        self.yields = 0
        self.max_yields = max_yields
        self.stuck = False

    def _next(self, cur: int | None) -> int | None:
        alive = [i for i in range(self.n) if not self.done[i]]
        if not alive:
            return None
        while self.pos < len(self.schedule):
            t = self.schedule[self.pos] - 1
            self.pos += 1
            if 0 <= t < self.n and not self.done[t]:
                return t
        if cur is None or cur not in alive:
            return alive[0]
        return alive[(alive.index(cur) + 1) % len(alive)]

    def sink(self, ev: str, fields: dict) -> None:
        me = self.index.get(threading.get_ident())
        if me is None:
            return
        if ev in RECORD:
            ident = fields.get("ident", fields.get("parser", 0))
            self.events.append({"t": me, "ev": ev, "ident": ident})
        if ev in YIELD and self.yields < self.max_yields:
            self.yields += 1
            self._yield(me)

    def _yield(self, me: int) -> None:
        with self.cv:
            nxt = self._next(me)
            if nxt is None or nxt == me:
                return
            self.turn = nxt
            self.cv.notify_all()
            if not self.cv.wait_for(lambda: self.turn == me, timeout=10):
                self.stuck = True

    def run(self, jobs) -> list:
        results: list = [None] * self.n

        def body(i):
            self.index[threading.get_ident()] = i
            with self.cv:
                if not self.cv.wait_for(lambda: self.turn == i, timeout=10):
                    self.stuck = True
            try:
                results[i] = jobs[i]()
            except BaseException as e:  # noqa: BLE001
                results[i] = ("raised", type(e).__name__, str(e)[:200])
            finally:
                with self.cv:
                    self.done[i] = True
                    self.turn = self._next(i)
                    self.cv.notify_all()
        threads = [threading.Thread(target=body, args=(i,)) for i in range(self.n)]
        for t in threads:
            t.start()
        with self.cv:
            self.turn = self._next(None)
            self.cv.notify_all()
        for t in threads:
            t.join(timeout=30)
        return results
