"""Drivers that execute the real nix_manipulator code (run inside pool workers only)."""
from __future__ import annotations

import signal
from contextlib import contextmanager


class CaseTimeout(Exception):
    pass


@contextmanager
def time_limit(seconds: float):
    def h(signum, frame):
        raise CaseTimeout(f"exceeded {seconds}s")
    old = signal.signal(signal.SIGALRM, h)
    signal.setitimer(signal.ITIMER_REAL, seconds)
    try:
        yield
    finally:
        signal.setitimer(signal.ITIMER_REAL, 0)
        signal.signal(signal.SIGALRM, old)


def _exc(e: BaseException) -> dict:
    return {"exc": type(e).__name__, "mro": [c.__name__ for c in type(e).__mro__], "msg": str(e)[:300]}


def roundtrip(text: str) -> dict:
    """parse -> rebuild -> parse -> rebuild of one text."""
    from nix_manipulator.parser import parse
    r: dict = {"text": text}
    try:
        with time_limit(20):
            src = parse(text)
            r["err"] = bool(src.contains_error)
            r["out"] = src.rebuild()
            r["again"] = src.rebuild()
    except BaseException as e:  # noqa: BLE001 - the error class is the observation
        if isinstance(e, (KeyboardInterrupt, SystemExit)):
            raise
        r["fail"] = _exc(e)
        return r
    try:
        with time_limit(20):
            r["out2"] = parse(r["out"]).rebuild()
    except BaseException as e:  # noqa: BLE001
        if isinstance(e, (KeyboardInterrupt, SystemExit)):
            raise
        r["fail2"] = _exc(e)
    return r
