"""Drivers that execute the real nix_manipulator code (run inside pool workers only)."""
from __future__ import annotations

import signal
from contextlib import contextmanager


class CaseTimeout(Exception):
    pass


@contextmanager
def time_limit(seconds: float):
    def h(signum, frame):
        raise CaseTimeout(f"exceeded {seconds}s")
    old = signal.signal(signal.SIGALRM, h)
    signal.setitimer(signal.ITIMER_REAL, seconds)
    try:
        yield
    finally:
        signal.setitimer(signal.ITIMER_REAL, 0)
        signal.signal(signal.SIGALRM, old)


def _exc(e: BaseException) -> dict:
    return {"exc": type(e).__name__, "mro": [c.__name__ for c in type(e).__mro__], "msg": str(e)[:300]}


def roundtrip(text: str) -> dict:
    """parse -> rebuild -> parse -> rebuild of one text."""
    from nix_manipulator.parser import parse
    r: dict = {"text": text}
    try:
        with time_limit(20):
            src = parse(text)
            r["err"] = bool(src.contains_error)
            r["out"] = src.rebuild()
            r["again"] = src.rebuild()
    except BaseException as e:  # noqa: BLE001 - the error class is the observation
        if isinstance(e, (KeyboardInterrupt, SystemExit)):
            raise
        r["fail"] = _exc(e)
        return r
    try:
        with time_limit(20):
            src2 = parse(r["out"])
            r["err2"] = bool(src2.contains_error)      # what `nima test' would say about the rebuilt text
            r["out2"] = src2.rebuild()
    except BaseException as e:  # noqa: BLE001
        if isinstance(e, (KeyboardInterrupt, SystemExit)):
            raise
        r["fail2"] = _exc(e)
    return r


# ---------------------------------------------------------------------------
# edit histories on ONE in-memory document

def snapshot(obj, _seen=None):
    """Deep structural snapshot of a document object (dataclass slots, lists, sentinels by name)."""
    import dataclasses
    if _seen is None:
        _seen = {}
    if obj is None or isinstance(obj, (str, int, float, bool, bytes)):
        return obj
    oid = id(obj)
    if oid in _seen:
        return ("<cycle>", type(obj).__name__)
    _seen[oid] = True
    try:
        if isinstance(obj, dict):
            return ("dict", tuple((k, snapshot(v, _seen)) for k, v in obj.items()))
        if isinstance(obj, (list, tuple)):
            extra = ()
            if type(obj).__name__ == "Scope":
                extra = ("Scope",)
            return ("list",) + extra + tuple(snapshot(x, _seen) for x in obj)
        if dataclasses.is_dataclass(obj):
            fields = []
            for f in dataclasses.fields(obj):
                fields.append((f.name, snapshot(getattr(obj, f.name, None), _seen)))
            return (type(obj).__name__, tuple(fields))
        name = type(obj).__name__
        if name in ("EmptyLine", "Linebreak", "Comma"):
            return name
        if name == "NixSourceCode":
            return (name, snapshot(obj.expressions, _seen), snapshot(obj.trailing, _seen), obj.contains_error)
        if name == "Node" or name == "PosixPath":
            return (name, str(obj) if name == "PosixPath" else None)
        return (name, repr(obj)[:80])
    finally:
        del _seen[oid]


def run_history(case: dict) -> dict:
    """Apply a sequence of set/rm operations to one document object; observe after every call."""
    from nix_manipulator.cli.manipulations import remove_value, set_value
    from nix_manipulator.parser import parse
    out: dict = {"steps": []}
    try:
        with time_limit(20):
            src = parse(case["text"])
            out["text0"] = src.rebuild()
    except BaseException as e:  # noqa: BLE001
        if isinstance(e, (KeyboardInterrupt, SystemExit)):
            raise
        out["fail"] = _exc(e)
        return out
    for op in case["ops"]:
        st: dict = {}
        try:
            before = snapshot(src)
        except BaseException as e:  # noqa: BLE001
            before = ("snapshot-failed", repr(e))
        try:
            with time_limit(20):
                if op["f"] == "set":
                    ret = set_value(src, op["npath"], op["vtext"])
                else:
                    ret = remove_value(src, op["npath"])
            st["res"] = "ok"
            st["ret"] = ret
        except BaseException as e:  # noqa: BLE001
            if isinstance(e, (KeyboardInterrupt, SystemExit)):
                raise
            st["res"] = type(e).__name__
            st["exc"] = _exc(e)
            try:
                st["same_snap"] = snapshot(src) == before
            except BaseException as e2:  # noqa: BLE001
                st["same_snap"] = False
                st["snap_err"] = repr(e2)[:200]
        try:
            with time_limit(20):
                st["cur"] = src.rebuild()
                st["again"] = src.rebuild()
        except BaseException as e:  # noqa: BLE001
            if isinstance(e, (KeyboardInterrupt, SystemExit)):
                raise
            st["cur_fail"] = _exc(e)
            out["steps"].append(st)
            break
        if st["res"] == "ok":
            try:
                with time_limit(20):
                    st["reparsed"] = parse(st["ret"]).rebuild()
            except BaseException as e:  # noqa: BLE001
                if isinstance(e, (KeyboardInterrupt, SystemExit)):
                    raise
                st["reparse_fail"] = _exc(e)
        out["steps"].append(st)
    return out


# ---------------------------------------------------------------------------
# C12: path texts

def _chain(text: str):
    """(raw attribute tokens, leaf text, definitions per level) of the single binding chain of `{ ... }'."""
    import tree_sitter_nix as tsn
    from tree_sitter import Language, Parser
    root = Parser(Language(tsn.language())).parse(text.encode()).root_node
    if root.has_error:
        return None
    node = next((c for c in root.children if c.type in ("attrset_expression", "rec_attrset_expression")), None)
    raw, maxdefs = [], 0
    while node is not None and node.type in ("attrset_expression", "rec_attrset_expression"):
        bs = next((c for c in node.children if c.type == "binding_set"), None)
        binds = [c for c in (bs.children if bs else []) if c.type == "binding"]
        if not binds:
            return raw, None, maxdefs
        maxdefs = max(maxdefs, len(binds))
        b = binds[0]
        ap = next(c for c in b.children if c.type == "attrpath")
        for seg in ap.children:
            if seg.type != ".":
                raw.append(seg.text.decode())
        node = [c for c in b.named_children if c.type not in ("attrpath", "comment")][-1]
    return raw, node.text.decode() if node is not None else None, maxdefs


def npath_case(case: dict) -> dict:
    from nix_manipulator.cli.manipulations import remove_value, set_value
    from nix_manipulator.parser import parse
    text = case["text"]
    out: dict = {}

    def call(f, *a):
        try:
            with time_limit(10):
                return "ok", f(*a)
        except BaseException as e:  # noqa: BLE001
            if isinstance(e, (KeyboardInterrupt, SystemExit)):
                raise
            return type(e).__name__, None
    out["res"], t1 = call(lambda: set_value(parse("{ }\n"), text, "1"))
    if out["res"] == "ok":
        ch = _chain(t1)
        out["t1"] = t1
        out["raw"] = ch[0] if ch else None
        out["res2"], t2 = call(lambda: set_value(parse(t1), text, "2"))
        if out["res2"] == "ok":
            ch2 = _chain(t2)
            out["raw2"], out["leaf2"], out["n2"] = ch2 if ch2 else (None, None, 0)
            out["res3"], t3 = call(lambda: remove_value(parse(t2), text))
            if out["res3"] == "ok":
                ch3 = _chain(t3)
                out["t3"] = t3
                # gone: the innermost name no longer defined
                out["gone3"] = ch3 is not None and len(ch3[0]) < len(ch2[0] if ch2 else [])
    if case.get("alt_file"):
        out["altres"], ta = call(lambda: set_value(parse(case["alt_file"]), text, "2"))
        if out["altres"] == "ok":
            cha = _chain(ta)
            out["alt_out"] = ta
            out["altdefs"] = cha[2] if cha else 0
    return out


# ---------------------------------------------------------------------------
# C16: command line

def _run_main(argv: list[str], stdin_text: str | None):
    import contextlib
    import io
    import sys
    from nix_manipulator.cli.main import main
    out, err = io.StringIO(), io.StringIO()
    old_in = sys.stdin
    status: object
    try:
        if stdin_text is not None:
            sys.stdin = io.StringIO(stdin_text)
        with contextlib.redirect_stdout(out), contextlib.redirect_stderr(err):
            try:
                with time_limit(20):
                    status = main(argv)
            except SystemExit as e:
                status = e.code if isinstance(e.code, int) else (0 if e.code is None else 1)
            except BaseException as e:  # noqa: BLE001 - an uncaught exception is exit status 1 + traceback
                if isinstance(e, KeyboardInterrupt):
                    raise
                status = 1
                err.write(type(e).__name__)
    finally:
        sys.stdin = old_in
    return out.getvalue(), status, err.getvalue()


def cli_chain(case: dict) -> dict:
    """A chain of invocations on one file; both channels per invocation; library called directly for reference."""
    import os
    import tempfile
    from nix_manipulator.cli.manipulations import remove_value, set_value
    from nix_manipulator.parser import parse
    text = case["text"]
    steps = []
    d = tempfile.mkdtemp(prefix="nima-cli-")
    path = os.path.join(d, "f.nix")
    try:
        for inv in case["chain"]:
            st: dict = {"cmd": inv["cmd"], "input": text}
            src = None
            try:
                with time_limit(20):
                    src = parse(text)
                    st["in_err"] = bool(src.contains_error)
                    st["in_fix"] = (not src.contains_error) and src.rebuild() == text
            except BaseException as e:  # noqa: BLE001
                if isinstance(e, (KeyboardInterrupt, SystemExit)):
                    raise
                st["in_err"], st["in_fix"], st["parse_exc"] = False, False, type(e).__name__
            if inv["cmd"] != "test":
                try:
                    with time_limit(20):
                        s2 = parse(text)
                        lib = set_value(s2, inv["npath"], inv["value"]) if inv["cmd"] == "set" else remove_value(s2, inv["npath"])
                    st["lib_ok"], st["lib_text"] = True, lib
                except BaseException as e:  # noqa: BLE001
                    if isinstance(e, (KeyboardInterrupt, SystemExit)):
                        raise
                    st["lib_ok"], st["lib_exc"] = False, type(e).__name__
            with open(path, "w", encoding="utf-8", newline="") as fh:
                fh.write(text)
            args = [inv["cmd"]] + ([inv["npath"]] if inv["cmd"] != "test" else []) + ([inv["value"]] if inv["cmd"] == "set" else [])
            o1, s1, e1 = _run_main(args, text)
            o2, s2_, e2 = _run_main(args + ["-f", path], None)
            st.update({"stdout": o1, "status": s1, "stderr": e1[:200], "stdout_f": o2, "status_f": s2_})
            if case.get("subprocess"):
                import subprocess
                import sys
                p = subprocess.run([sys.executable, "-m", "nix_manipulator"] + args, input=text, capture_output=True,
                                   text=True, timeout=60, env=dict(os.environ))
                st.update({"sp_stdout": p.stdout, "sp_status": p.returncode})
            steps.append(st)
            if inv["cmd"] != "test" and s1 == 0 and inv.get("redirect", True):
                text = o1          # `> file'
    finally:
        import shutil
        shutil.rmtree(d, ignore_errors=True)
    return {"steps": steps}


# ---------------------------------------------------------------------------
# C17: imports

def import_case(case: dict) -> dict:
    import os
    import shutil
    import tempfile
    from nix_manipulator.parser import parse_file
    root = tempfile.mkdtemp(prefix="nima-imp-")
    old = os.getcwd()
    try:
        def p(comps):
            return os.path.join(root, *comps) if comps else root

        def sp_text(sp):
            if sp["abs"]:
                return p(sp["comps"])
            return "/".join(sp["comps"])
        # decoys: every directory (and the working directories) holds every file name, val = own path
        imports: dict = {}
        prev = case["entry"]
        for i, hop in enumerate(case["chain"], start=1):
            imports.setdefault(tuple(prev), []).append((f"n{i}", "import " + sp_text(hop["sp"])))
            prev = hop["file"]
        k = len(case["chain"]) + 1
        fault = case["fault"]
        if fault != "none":
            arg = {"string": '"./m.nix"', "angle": "<nixpkgs>", "call": "(f ./m.nix)", "missing": "./no-such-file.nix"}[fault]
            imports.setdefault(tuple(prev), []).append((f"n{k}", "import " + arg))
        for d in case["dirs"]:
            os.makedirs(p(d), exist_ok=True)
            for n in case["names"]:
                f = list(d) + [n]
                lines = [f'  val = "{"/".join(f)}";'] + [f"  {key} = {imp};" for key, imp in imports.get(tuple(f), [])]
                with open(p(f), "w", encoding="utf-8") as fh:
                    fh.write("{\n" + "\n".join(lines) + "\n}\n")
        os.makedirs(p(case["cwd"]), exist_ok=True)
        os.chdir(p(case["cwd"]))
        entry = sp_text(case["entrySp"])
        moved = False
        try:
            with time_limit(20):
                cur = parse_file(entry)
                for i in range(1, len(case["chain"]) + 1):
                    at = case["chain"][i - 1].get("at")
                    if at is not None and at != case["cwd"] or moved:
                        # the history of Imports.tla: the working directory changes between two hops
                        os.makedirs(p(at), exist_ok=True)
                        os.chdir(p(at))
                        moved = True
                    cur = cur[f"n{i}"]
                if fault != "none":
                    cur = cur[f"n{k}"]
                v = cur["val"]
                val = getattr(v, "value", v)
            return {"res": "value", "val": str(val).split("/"), "mro": []}
        except BaseException as e:  # noqa: BLE001
            if isinstance(e, (KeyboardInterrupt, SystemExit)):
                raise
            return {"res": type(e).__name__, "val": [], "mro": [c.__name__ for c in type(e).__mro__], "msg": str(e)[:200]}
    finally:
        os.chdir(old)
        shutil.rmtree(root, ignore_errors=True)


# ---------------------------------------------------------------------------
# C10 / C11: resolution and editing through references

def scope_case(case: dict) -> dict:
    from nix_manipulator.cli.manipulations import set_value
    from nix_manipulator.parser import parse
    out: dict = {}
    try:
        with time_limit(10):
            cur = parse(case["text"])
            if case.get("formals"):
                # a directly applied function: the way the repository's own tests reach the body
                from nix_manipulator.expressions.parenthesis import Parenthesis
                from nix_manipulator.resolution import attach_resolution_context, function_call_scope, set_resolution_context
                call = cur.expr
                ps = function_call_scope(call)
                fn = call.name.value if isinstance(call.name, Parenthesis) else call.name
                cur = fn.output
                if ps is not None:
                    set_resolution_context(cur, (ps,))
                attach_resolution_context(cur, owner=cur)
            for k in case["keys"]:
                if k == "<call>":
                    # into the body of a directly applied function, the way the repository's own tests reach it
                    from nix_manipulator.expressions.function.call import FunctionCall
                    from nix_manipulator.expressions.parenthesis import Parenthesis
                    from nix_manipulator.expressions.with_statement import WithStatement
                    from nix_manipulator.resolution import attach_resolution_context
                    if hasattr(cur, "expressions"):
                        cur = cur.expr
                    for _ in range(20):
                        if isinstance(cur, Parenthesis):
                            cur = cur.value
                        elif isinstance(cur, WithStatement):
                            cur = cur._attach_body_context()
                        else:
                            break
                    if not isinstance(cur, FunctionCall):
                        raise SystemExit(f"harness: no call at <call>: {type(cur).__name__}")
                    fn = cur.name
                    while isinstance(fn, Parenthesis):
                        fn = fn.value
                    body = fn.output
                    attach_resolution_context(body, owner=cur)
                    cur = body
                    continue
                cur = cur[k]
            v = cur.value
            try:
                txt = v.rebuild().strip()
            except Exception:  # noqa: BLE001
                txt = repr(v)
            out["resolve"] = {"res": "value", "text": txt, "cls": type(v).__name__}
    except BaseException as e:  # noqa: BLE001
        if isinstance(e, (KeyboardInterrupt, SystemExit)):
            raise
        out["resolve"] = {"res": type(e).__name__, "mro": [c.__name__ for c in type(e).__mro__], "msg": str(e)[:160]}
    if case.get("edit"):
        try:
            with time_limit(10):
                out["edit"] = {"res": "ok", "text": set_value(parse(case["text"]), ".".join(case["keys"]), "99")}
        except BaseException as e:  # noqa: BLE001
            if isinstance(e, (KeyboardInterrupt, SystemExit)):
                raise
            out["edit"] = {"res": type(e).__name__, "msg": str(e)[:160]}
        # a HISTORY on one object: edit through the reference, change which layer binds the name, edit again
        if len(case["keys"]) == 1:
            seq = []
            try:
                with time_limit(15):
                    src = parse(case["text"])
                    for path, val in ((case["keys"][0], "99"), ("@a", "55"), (case["keys"][0], "97")):
                        try:
                            seq.append({"res": "ok", "text": set_value(src, path, val)})
                        except (KeyError, ValueError) as e:
                            seq.append({"res": type(e).__name__, "text": src.rebuild()})
            except BaseException as e:  # noqa: BLE001
                if isinstance(e, (KeyboardInterrupt, SystemExit)):
                    raise
                seq.append({"res": type(e).__name__, "msg": str(e)[:160]})
            out["seq"] = seq
        try:
            with time_limit(10):
                src = parse(case["text"])
                cur = src
                for k in case["keys"]:
                    cur = cur[k]
                cur.value = 98
                out["assign"] = {"res": "ok", "text": src.rebuild()}
        except BaseException as e:  # noqa: BLE001
            if isinstance(e, (KeyboardInterrupt, SystemExit)):
                raise
            out["assign"] = {"res": type(e).__name__, "msg": str(e)[:160]}
    return out


# ---------------------------------------------------------------------------
# C14: mapping API histories

def map_history(case: dict) -> dict:
    from nix_manipulator.parser import parse
    out: dict = {"steps": []}
    try:
        src = parse(case["text"])
        out["text0"] = src.rebuild()
    except BaseException as e:  # noqa: BLE001
        if isinstance(e, (KeyboardInterrupt, SystemExit)):
            raise
        out["fail"] = _exc(e)
        return out

    def surface(s):
        if s["kind"] == "doc":
            return src
        if s["kind"] == "scope":
            return src.expr.scope
        return src[s["via"]]

    def pyval(v):
        if v["k"] == "int":
            return v["v"]
        if v["k"] == "set":
            return {x["ap"][0]: pyval(x["val"]) for x in v["items"]}
        raise ValueError("unsupported model value")

    def render(x):
        try:
            return x.rebuild()
        except Exception:  # noqa: BLE001
            return repr(x)
    for op in case["ops"]:
        st: dict = {}
        before = None
        try:
            before = snapshot(src)
        except BaseException:  # noqa: BLE001
            pass
        try:
            with time_limit(10):
                m = surface(op["s"])
                if op["m"] == "get":
                    st["got"] = render(m[op["k"]])
                elif op["m"] == "set":
                    m[op["k"]] = pyval(op["v"])
                elif op["m"] == "copy":
                    m[op["k"]] = m[op["v"]["n"]]
                else:
                    del m[op["k"]]
            st["res"] = "ok"
        except BaseException as e:  # noqa: BLE001
            if isinstance(e, (KeyboardInterrupt, SystemExit)):
                raise
            st["res"] = type(e).__name__
            st["exc"] = _exc(e)
            try:
                st["same_snap"] = snapshot(src) == before
            except BaseException:  # noqa: BLE001
                st["same_snap"] = False
        # observe: which keys of the universe does the surface report now; value read back after a set
        rep, sok = [], True
        try:
            m2 = surface(op["s"])
            for k in case["universe"]:
                try:
                    m2[k]
                    rep.append(k)
                except KeyError:
                    pass
            if op["m"] == "set" and st["res"] == "ok":
                st["got_after"] = render(m2[op["k"]])
        except BaseException as e:  # noqa: BLE001
            if isinstance(e, (KeyboardInterrupt, SystemExit)):
                raise
            sok = False
        st["reported"], st["surface_ok"] = rep, sok
        try:
            st["cur"] = src.rebuild()
        except BaseException as e:  # noqa: BLE001
            if isinstance(e, (KeyboardInterrupt, SystemExit)):
                raise
            st["cur_fail"] = _exc(e)
            out["steps"].append(st)
            break
        out["steps"].append(st)
    return out


# ---------------------------------------------------------------------------
# C13: values built programmatically

def value_case(case: dict) -> dict:
    from nix_manipulator.expressions import AttributeSet, Binding
    from nix_manipulator.expressions.expression import coerce_expression
    from nix_manipulator.expressions.list import NixList
    from nix_manipulator.parser import parse
    pv, route = case["pv"], case["route"]

    def build():
        import copy
        v = copy.deepcopy(pv)
        if route == "from_dict":
            return AttributeSet.from_dict({"k": v}).rebuild()
        if route == "ctor_dict":
            return AttributeSet({"k": v}).rebuild()
        if route == "binding":
            return AttributeSet(values=[Binding(name="k", value=v)]).rebuild()
        if route == "nixlist":
            return NixList(value=[v, 1]).rebuild()
        if route == "item_assign":
            src = parse("{ }\n")
            src["k"] = v
            return src.rebuild()
        if route == "scope_assign":
            src = parse("{ }\n")
            src.expr.scope["k"] = v
            return src.rebuild()
        if route == "top":
            if isinstance(v, dict):
                return AttributeSet.from_dict(v).rebuild()
            return coerce_expression(v).rebuild()
        raise ValueError(route)
    out: dict = {}
    try:
        with time_limit(10):
            out["text"] = build()
            out["text_again"] = build()
    except BaseException as e:  # noqa: BLE001
        if isinstance(e, (KeyboardInterrupt, SystemExit)):
            raise
        out["fail"] = _exc(e)
        return out
    try:
        with time_limit(10):
            t1 = parse(out["text"]).rebuild()
            out["t1"] = t1
            out["t2"] = parse(t1).rebuild()
    except BaseException as e:  # noqa: BLE001
        if isinstance(e, (KeyboardInterrupt, SystemExit)):
            raise
        out["reparse_fail"] = _exc(e)
    return out


# ---------------------------------------------------------------------------
# C07 / C20: robustness on damaged texts

def _call(f):
    try:
        with time_limit(20):
            return {"res": "ok", "mro": [], "val": f()}
    except BaseException as e:  # noqa: BLE001
        if isinstance(e, (KeyboardInterrupt, SystemExit)):
            raise
        return {"res": type(e).__name__, "mro": [c.__name__ for c in type(e).__mro__], "val": None, "msg": str(e)[:200]}


ROBUST_PATHS = ["a.b", "@a", "@a.b", "@@a", "\"a b\"", "x", "@x.y.z"]


def robust_case(text: str) -> dict:
    from nix_manipulator.cli.manipulations import remove_value, set_value
    from nix_manipulator.parser import parse
    out: dict = {}
    r = _call(lambda: parse(text).rebuild())
    out["rebuild"] = {"res": r["res"], "mro": r["mro"], "same_bytes": r["val"] == text, "msg": r.get("msg")}
    o, s, _e = _run_main(["test"], text)
    out["test"] = {"out": "OK" if o == "OK\n" else "Fail" if o == "Fail\n" else "other", "status": s if isinstance(s, int) else 1}
    for name, f in (("set", lambda: set_value(parse(text), "a", "1")), ("rm", lambda: remove_value(parse(text), "a")),
                    ("value", lambda: set_value(parse("{ a = 1; }\n"), "a", text))):
        r = _call(f)
        out[name] = {"res": r["res"], "mro": r["mro"], "msg": r.get("msg"), "out": r["val"]}
    o, s, _e = _run_main(["set", "a", "1"], text)
    out["cli_set"] = {"stdout_empty": o == "", "status": s if isinstance(s, int) else 1}
    # every way of addressing an edit: plain, nested, scoped (@, @@), quoted paths
    edits = []
    for np in ROBUST_PATHS:
        for kind, f in (("set", lambda np=np: set_value(parse(text), np, "2")), ("rm", lambda np=np: remove_value(parse(text), np))):
            r = _call(f)
            edits.append({"kind": kind, "npath": np, "res": r["res"], "mro": r["mro"]})
    out["edits"] = edits
    cli = []
    for argv in (["set", "@a", "2"], ["rm", "a"], ["rm", "@a"], ["set", "a.b", "2"]):
        o, s, _e = _run_main(argv, text)
        cli.append({"argv": " ".join(argv), "stdout_empty": o == "", "status": s if isinstance(s, int) else 1})
    out["cli_edits"] = cli
    return out


# ---------------------------------------------------------------------------
# C20: renderer-call counts for nesting families

_COUNT = {"n": 0}
_PATCHED = False


def _patch_rebuild_counters():
    """Wrap every expression class's rebuild with a counter (no change to the repository)."""
    global _PATCHED
    if _PATCHED:
        return
    import importlib
    import pkgutil
    import nix_manipulator.expressions as pkg
    from nix_manipulator.expressions.expression import NixExpression
    for m in pkgutil.walk_packages(pkg.__path__, pkg.__name__ + "."):
        importlib.import_module(m.name)
    import nix_manipulator.expressions.source_code  # noqa: F401

    def subclasses(c):
        for s in c.__subclasses__():
            yield s
            yield from subclasses(s)
    for cls in set(subclasses(NixExpression)):
        if "rebuild" in cls.__dict__:
            orig = cls.__dict__["rebuild"]

            def make(o):
                def counted(self, *a, **k):
                    _COUNT["n"] += 1
                    return o(self, *a, **k)
                return counted
            setattr(cls, "rebuild", make(orig))
    _PATCHED = True


def work_case(case: dict) -> dict:
    import time
    from nix_manipulator.parser import parse
    _patch_rebuild_counters()
    out = {}
    for tag, depth in (("c1", case["d"]), ("c2", 2 * case["d"])):
        text = "1"
        frames = case["frames"]
        for i in range(depth):
            pre, post = frames[(depth - 1 - i) % len(frames)]
            text = pre + text + post
        _COUNT["n"] = 0
        t0 = time.process_time()
        try:
            with time_limit(case.get("limit", 5)):
                parse(text + "\n").rebuild()
            out[tag] = _COUNT["n"]
        except CaseTimeout:
            out[tag] = _COUNT["n"]
            out["timeout"] = True
            out["cpu_" + tag] = round(time.process_time() - t0, 3)
            break
        except BaseException as e:  # noqa: BLE001
            if isinstance(e, (KeyboardInterrupt, SystemExit)):
                raise
            out[tag] = _COUNT["n"]
            out["raised"] = _exc(e)
            break
        out["cpu_" + tag] = round(time.process_time() - t0, 3)
    return out


def long_file_case(n: int) -> dict:
    """Width dimension: n bindings / n-element operator chain; renderer calls must grow linearly."""
    import time
    from nix_manipulator.parser import parse
    _patch_rebuild_counters()
    out = {}
    for tag, k in (("c1", n), ("c2", 2 * n)):
        for shape in ("bindings", "chain", "list"):
            text = ("{\n" + "".join(f"  a{i} = {i};\n" for i in range(k)) + "}\n") if shape == "bindings" else \
                (" + ".join(f"a{i}" for i in range(min(k, 150 if tag == "c1" else 300))) + "\n") if shape == "chain" else ("[\n" + "".join(f"  a{i}\n" for i in range(k)) + "]\n")
            _COUNT["n"] = 0
            t0 = time.process_time()
            try:
                with time_limit(30):
                    parse(text).rebuild()
            except BaseException as e:  # noqa: BLE001
                if isinstance(e, (KeyboardInterrupt, SystemExit)):
                    raise
                out[f"{shape}_fail"] = _exc(e)
            out[f"{shape}_{tag}"] = _COUNT["n"]
            out[f"{shape}_cpu_{tag}"] = round(time.process_time() - t0, 3)
    return out


# ---------------------------------------------------------------------------
# C15: purity, schedules, free-running threads, order independence

def _job(kind: str, text: str):
    from nix_manipulator.cli.manipulations import set_value
    from nix_manipulator.parser import parse, parse_file
    if kind == "roundtrip":
        return lambda: parse(text).rebuild()
    if kind == "edit":
        return lambda: set_value(parse(text), "a", "2")
    if kind == "resolve":
        def f():
            s = parse(text)
            return s["x"].value.rebuild() + "|" + s.rebuild()
        return f
    if kind == "parse_file":
        def g():
            import os
            import tempfile
            d = tempfile.mkdtemp(prefix="nima-c15-")
            p = os.path.join(d, "f.nix")
            try:
                with open(p, "w", encoding="utf-8") as fh:
                    fh.write(text)
                return parse_file(p).rebuild()
            finally:
                import shutil
                shutil.rmtree(d, ignore_errors=True)
        return g
    raise ValueError(kind)


def _safe(f):
    try:
        return f()
    except BaseException as e:  # noqa: BLE001
        if isinstance(e, (KeyboardInterrupt, SystemExit)):
            raise
        return ("raised", type(e).__name__, str(e)[:200])


def sched_case(case: dict) -> dict:
    """Run the jobs serially, then as real threads along the given schedule; compare."""
    from nix_manipulator import _verif_hooks as hooks
    from harness.sched import Coop
    jobs = [_job(j["kind"], j["text"]) for j in case["jobs"]]
    hooks.install(None)
    serial = [_safe(j) for j in jobs]
    coop = Coop(len(jobs), case["sched"])
    hooks.install(coop.sink)
    try:
        threaded = coop.run(jobs)
    finally:
        hooks.install(None)
    return {"serial": serial, "threaded": threaded, "events": coop.events, "stuck": coop.stuck, "hooks_on": hooks.ENABLED}


def free_threads_case(case: dict) -> dict:
    """n threads each process their own documents without any scheduling; events are ordered by a lock-protected counter."""
    import threading
    from nix_manipulator import _verif_hooks as hooks
    texts = case["texts"]
    n = case["threads"]
    hooks.install(None)
    serial = [_safe(_job("roundtrip", t)) for t in texts]
    lock = threading.Lock()
    events: list[dict] = []
    index: dict[int, int] = {}

    def sink(ev, fields):
        if ev in ("parser_get", "parser_done", "bytes_enter", "gap_read", "bytes_exit"):
            me = index.get(threading.get_ident())
            if me is None:
                return
            with lock:
                events.append({"t": me, "ev": ev, "ident": fields.get("ident", fields.get("parser", 0))})
    out: list = [None] * len(texts)

    def body(i):
        index[threading.get_ident()] = i
        for k in range(i, len(texts), n):
            out[k] = _safe(_job("roundtrip", texts[k]))
    hooks.install(sink)
    try:
        ths = [threading.Thread(target=body, args=(i,)) for i in range(n)]
        for t in ths:
            t.start()
        for t in ths:
            t.join(timeout=120)
    finally:
        hooks.install(None)
    # idents are object ids: reuse across time is possible once an object died; keep per-event identity only within
    # enter..exit windows (the trace spec compares a read with the reader's own enclosing enter)
    return {"same": out == serial, "events": events[:60000], "n_events": len(events),
            "mismatch": next(({"i": i, "serial": s, "threaded": o} for i, (s, o) in enumerate(zip(serial, out)) if s != o), None)}


def purity_case(text: str) -> dict:
    from nix_manipulator.parser import parse
    try:
        with time_limit(20):
            src = parse(text)
            before = snapshot(src)
            a = src.rebuild()
            mid = snapshot(src)
            b = src.rebuild()
            after = snapshot(src)
        return {"res": "ok", "same_text": a == b, "same_snap": before == mid == after}
    except BaseException as e:  # noqa: BLE001
        if isinstance(e, (KeyboardInterrupt, SystemExit)):
            raise
        return {"res": type(e).__name__, "same_text": True, "same_snap": True}


def built_purity_case(case: dict) -> dict:
    """Purity of a document BUILT through the API (layout decisions are then taken at rebuild time)."""
    import copy
    from nix_manipulator.expressions import AttributeSet, Identifier, WithStatement
    from nix_manipulator.expressions.expression import coerce_expression
    from nix_manipulator.parser import parse
    pv, shape = copy.deepcopy(case["pv"]), case["shape"]

    def conv(x, in_list=False):
        # the constructors take expression objects where plain dicts are not accepted (elements of a list)
        from nix_manipulator.expressions.list import NixList
        if isinstance(x, list):
            items = [conv(y, True) for y in x]
            return NixList(value=items) if any(not isinstance(y, (int, float, str, bool, type(None))) for y in items) else items
        if isinstance(x, dict) and in_list:
            return AttributeSet.from_dict(x)
        return x
    try:
        with time_limit(20):
            pv = conv(pv)
            src = parse("{\n  a = 1;\n}\n")
            if shape == "item_assign":
                src["k"] = pv
            elif shape == "with_body":
                body = AttributeSet.from_dict(pv) if isinstance(pv, dict) else coerce_expression(pv)
                src["k"] = WithStatement(environment=Identifier(name="p"), body=body)
            elif shape == "nested":
                src["k"] = {"inner": pv}
            else:
                raise ValueError(shape)
            before = snapshot(src)
            a = src.rebuild()
            mid = snapshot(src)
            b = src.rebuild()
            after = snapshot(src)
        return {"res": "ok", "same_text": a == b, "same_snap": before == mid == after, "text": a}
    except BaseException as e:  # noqa: BLE001
        if isinstance(e, (KeyboardInterrupt, SystemExit)):
            raise
        return {"res": type(e).__name__, "same_text": True, "same_snap": True, "msg": str(e)[:120]}


def order_case(case: dict) -> dict:
    """The same texts processed in two different orders in ONE process (plus some resolves / edits in between)."""
    import hashlib
    texts = case["texts"]
    res = {}
    for name, order in (("a", case["order_a"]), ("b", case["order_b"])):
        outs = {}
        for i in order:
            outs[i] = _safe(_job(case["kinds"][i], texts[i]))
        res[name] = outs
    diff = [i for i in range(len(texts)) if res["a"].get(i) != res["b"].get(i)]
    h = hashlib.sha256(json_dumps([res["a"].get(i) for i in range(len(texts))]).encode()).hexdigest()
    return {"same": not diff, "first_diff": diff[:1], "digest": h,
            "detail": {"text": texts[diff[0]], "a": res["a"][diff[0]], "b": res["b"][diff[0]]} if diff else None}


def json_dumps(x):
    import json
    return json.dumps(x, default=str, ensure_ascii=False)


# ---------------------------------------------------------------------------
# C10 (registry half): create / resolve / discard histories with lifetime monitoring

PLAIN_DOCS = {9}        # Docs.tla Plain


def registry_case(case: dict) -> dict:
    import gc
    import weakref
    from nix_manipulator import _verif_hooks as hooks
    from nix_manipulator.parser import parse
    events: list[dict] = []
    serials: dict[int, int] = {}       # id(obj) -> serial (our own identity-keyed table, cleaned by our own weakref callbacks)
    keep: dict[int, object] = {}       # serial -> weakref (keeps the callback alive)
    counter = {"n": 0}
    ctxs: dict[int, int] = {}

    def serial_of(obj) -> int:
        oid = id(obj)
        s = serials.get(oid)
        if s is not None and keep.get(s) is not None and keep[s]() is obj:
            return s
        counter["n"] += 1
        s = counter["n"]
        serials[oid] = s

        def died(_ref, s=s, oid=oid):
            events.append({"ev": "death", "addr": 0, "serial": s, "ctx": 0})
            if serials.get(oid) == s:
                serials.pop(oid, None)
        try:
            keep[s] = weakref.ref(obj, died)
        except TypeError:
            keep[s] = None
        return s

    def sink(ev, f):
        if ev == "ctx_store":
            events.append({"ev": "store", "addr": 0, "serial": serial_of(f["obj"]), "ctx": ctxs.setdefault(f["ctx"], len(ctxs) + 1)})
        elif ev == "ctx_hit":
            events.append({"ev": "hit", "addr": 0, "serial": serial_of(f["obj"]), "ctx": ctxs.setdefault(f["ctx"], len(ctxs) + 1)})
    docs: dict[int, object] = {}
    results_ok = True
    wrong = None
    hooks.install(sink)
    try:
        for op, k in case["ops"]:
            if op == "create" and k in PLAIN_DOCS:
                docs[k] = parse("{ x = 1; q = 2; }")
            elif op == "create":
                docs[k] = parse(f"let v = {100 + k}; in {{ x = v; y = w; w = v; n = {{ z = v; }}; }}")
            elif op == "resolve" and k in PLAIN_DOCS:
                pass
            elif op == "resolve" and k in docs:
                for path in (("x",), ("y",), ("n", "z")):
                    try:
                        cur = docs[k]
                        for key in path:
                            cur = cur[key]
                        val = cur.value.rebuild().strip()
                    except Exception as e:  # noqa: BLE001
                        val = "raised:" + type(e).__name__
                    if path != ("y",) and val != str(100 + k):
                        results_ok = False
                        wrong = {"doc": k, "path": path, "got": val}
            elif op == "discard" and k in docs:
                del docs[k]
                gc.collect()
            elif op == "transplant":
                s_, d_, key = k
                if s_ in docs and d_ in docs:
                    try:
                        obj = docs[s_]["x"]          # the identifier object, with the scopes of document s_ attached
                        _ = obj.value
                        del docs[s_]
                        gc.collect()
                        docs[d_][key] = obj          # the reference now sits in document d_
                        val = docs[d_][key].value.rebuild().strip()
                    except Exception as e:  # noqa: BLE001
                        val = "raised:" + type(e).__name__
                    if (d_ in PLAIN_DOCS or val != str(100 + d_)) and val != "raised:ResolutionError":
                        results_ok = False
                        wrong = {"transplant": [s_, d_, key], "got": val, "expected": str(100 + d_)}
    finally:
        hooks.install(None)
    return {"events": events[:20000], "results_ok": results_ok, "wrong": wrong, "n_events": len(events)}
