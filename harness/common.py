"""Shared check plumbing: tiers/seeds, violations, known findings, evidence files, exit codes."""
from __future__ import annotations

import hashlib
import json
import os
import sys
import time
from dataclasses import dataclass, field
from pathlib import Path

VERIF = Path(__file__).resolve().parent.parent
REPO = Path(os.environ.get("NIMA_REPO", "/repo"))
EVIDENCE = VERIF / "evidence"
REPLAY = VERIF / "replay"
KNOWN = VERIF / "known_findings.json"
GUARD = "NIMA_VERIF"


def tier_seed(argv_tier: str | None = None) -> tuple[str, int]:
    tier = argv_tier or os.environ.get("VERIF_TIER") or "quick"
    if tier not in ("quick", "thorough"):
        tier = "quick"
    try:
        seed = int(os.environ.get("VERIF_SEED", "0"))
    except ValueError:
        seed = 0
    return tier, seed


def load_known() -> list[dict]:
    if not KNOWN.exists():
        return []
    return json.loads(KNOWN.read_text()).get("findings", [])


@dataclass
class Violation:
    prop: str
    key: str            # abstract-case signature; known findings are matched on (prop, key)
    clause: str         # failing specification clause
    detail: dict        # concrete case: texts, ops, projected states ...


@dataclass
class Run:
    """One check run: collects violations, counts, samples; writes evidence; decides exit status."""
    prop: str
    tier: str
    seed: int
    level: str = "model_checking"
    t0: float = field(default_factory=time.time)
    violations: list = field(default_factory=list)
    known_hit: dict = field(default_factory=dict)
    coverage: dict = field(default_factory=dict)
    samples: list = field(default_factory=list)
    assumptions: list = field(default_factory=list)
    distinct: set = field(default_factory=set)
    evaluations: int = 0
    states: int = 0
    transitions: int = 0
    traces: int = 0
    notes: list = field(default_factory=list)

    def add_model(self, res, label: str | None = None) -> None:
        """Accumulate TLC statistics of a model-checking / trace-validation run."""
        self.states += res.distinct
        self.transitions += res.generated
        if label:
            self.coverage.setdefault("tlc_runs", []).append(
                {"run": label, "distinct_states": res.distinct, "states_generated": res.generated,
                 "depth": res.depth, "wall_s": round(res.wall_s, 2)})
            if res.coverage:
                self.coverage.setdefault("coverage_by_action", {})[label] = res.coverage

    def case(self, sig: str, nontrivial: bool = True) -> None:
        self.evaluations += 1
        if nontrivial:
            self.distinct.add(hashlib.blake2b(sig.encode(), digest_size=8).digest())

    def sample(self, obj, limit: int = 6) -> None:
        if len(self.samples) < limit:
            self.samples.append(obj)

    def violation(self, key: str, clause: str, detail: dict, prop: str | None = None) -> None:
        self.violations.append(Violation(prop or self.prop, key, clause, detail))

    # ------------------------------------------------------------------
    def finish(self, rule: str, extra: dict | None = None) -> int:
        known = [k for k in load_known() if k.get("property") == self.prop and k.get("status", "known") == "known"]
        known_keys = {k["key"]: k for k in known}
        fresh: list[Violation] = []
        hits: dict[str, int] = {}
        for v in self.violations:
            if v.key in known_keys:
                hits[v.key] = hits.get(v.key, 0) + 1
            else:
                fresh.append(v)
        for key, n in sorted(hits.items()):
            print(f"KNOWN-FINDING: property={self.prop} {key} :: {known_keys[key].get('what','')} ({n} case(s) this run)")
        rc = 0
        seen_keys: dict[str, int] = {}
        if fresh:
            REPLAY.mkdir(exist_ok=True)
            d = REPLAY / self.prop
            d.mkdir(exist_ok=True)
            for v in fresh:
                seen_keys[v.key] = seen_keys.get(v.key, 0) + 1
                if seen_keys[v.key] > 3 or len(seen_keys) > 600:
                    continue  # keep output bounded: first 3 cases of each distinct key
                name = hashlib.blake2b((v.key + json.dumps(v.detail, sort_keys=True, default=str)).encode(),
                                       digest_size=6).hexdigest()
                path = d / f"{name}.json"
                path.write_text(json.dumps({"property": v.prop, "key": v.key, "clause": v.clause,
                                            "tier": self.tier, "seed": self.seed, "detail": v.detail},
                                           indent=1, default=str))
                print(f"VIOLATION property={v.prop} replay={path} key={v.key} clause={v.clause}")
            rc = 1
        cov = dict(self.coverage)
        cov.update({
            "states": self.states, "transitions": self.transitions,
            "traces_validated_against_impl": self.traces,
            "evaluations": self.evaluations, "distinct_nontrivial": len(self.distinct),
            "rule": rule, "samples": self.samples[:6] or [{"note": "no sample recorded"}],
            "known_findings_hit": hits,
            "violation_keys": {k: n for k, n in sorted(seen_keys.items())[:600]},
        })
        if extra:
            cov.update(extra)
        if self.notes:
            cov["notes"] = self.notes
        ev = {"property_id": self.prop, "tier": self.tier, "seed": self.seed, "level": self.level,
              "coverage": cov, "assumptions": self.assumptions, "wall_s": round(time.time() - self.t0, 2),
              "violations": len(fresh)}
        EVIDENCE.mkdir(exist_ok=True)
        (EVIDENCE / f"{self.prop}.json").write_text(json.dumps(ev, indent=1, default=str))
        print(f"[{self.prop}] tier={self.tier} seed={self.seed} evaluations={self.evaluations} "
              f"distinct={len(self.distinct)} tlc_states={self.states} traces={self.traces} "
              f"violations={len(fresh)} known={sum(hits.values())} wall={ev['wall_s']}s")
        return rc


def machinery_failure(prop: str, msg: str) -> int:
    print(f"MACHINERY-FAILURE property={prop}: {msg}", file=sys.stderr)
    return 2
