"""Projection: concrete Nix text -> abstract state of the specification.

Independent of nix_manipulator's AST: walks the tree-sitter-nix CST directly.
  items(text)  -> Items.tla stream (code tokens, comments, gaps)
  doc(text)    -> Doc.tla record (wrappers, let layers, body items ...)
  data(text)   -> Python data read back from Nix data syntax (Values.tla ReadBack)
"""
from __future__ import annotations

import re
import threading

import tree_sitter_nix as _tsn
from tree_sitter import Language, Parser

_LANG = Language(_tsn.language())
_local = threading.local()


def _parser() -> Parser:
    p = getattr(_local, "p", None)
    if p is None:
        p = _local.p = Parser(_LANG)
    return p


def cst(text: str | bytes):
    b = text.encode("utf-8") if isinstance(text, str) else text
    return _parser().parse(b).root_node, b


def has_error(text: str | bytes) -> bool:
    root, _ = cst(text)
    return root.has_error


KEYWORDS = {"let", "in", "with", "assert", "if", "then", "else", "rec", "inherit", "or"}
OPERATORS = {"+", "-", "*", "/", "++", "//", "==", "!=", "<", "<=", ">", ">=", "&&", "||", "->", "!", "?",
             "|>", "<|"}
DELIMS = {";", ",", "(", ")", "{", "}", "[", "]", "=", ":", "@", ".", "${", '"', "''", "...", "ellipses"}
LIT_TYPES = {"integer_expression", "float_expression", "uri_expression", "spath_expression",
             "path_fragment", "string_fragment", "escape_sequence", "dollar_escape"}
STRINGS = {"string_expression", "indented_string_expression"}


def _leaves(node, b, out, q=0):
    """Append (kind, cls, start, end, type, q) for every token / comment below node, in source order.
    q != 0 identifies the outermost string / path literal the leaf belongs to (its contents are exempt
    from spacing rules: C18 speaks of text outside string and comment contents)."""
    t = node.type
    if q == 0 and (t in STRINGS or t in ("path_expression", "hpath_expression")):
        q = node.start_byte + 1
    if t == "comment":
        out.append(("c", "", node.start_byte, node.end_byte, t, q))
        return
    if t in STRINGS:
        ch = node.children
        # opening delimiter, content runs (everything that is not an interpolation), closing delimiter
        if not ch:
            out.append(("t", "lit", node.start_byte, node.end_byte, t, q))
            return
        opener, closer = ch[0], ch[-1]
        out.append(("t", "dl", opener.start_byte, opener.end_byte, opener.type, q))
        pos = opener.end_byte
        for c in ch[1:-1] if len(ch) >= 2 else []:
            if c.type == "interpolation":
                if c.start_byte > pos:
                    out.append(("t", "lit", pos, c.start_byte, "strpart", q))
                _leaves(c, b, out, q)
                pos = c.end_byte
        end_content = closer.start_byte if len(ch) >= 2 and closer is not opener else node.end_byte
        if end_content > pos:
            out.append(("t", "lit", pos, end_content, "strpart", q))
        if len(ch) >= 2 and closer is not opener:
            out.append(("t", "dl", closer.start_byte, closer.end_byte, closer.type, q))
        return
    if node.child_count == 0:
        if node.is_missing or node.end_byte == node.start_byte:
            return
        txt = b[node.start_byte:node.end_byte].decode("utf-8", "replace")
        if t == "identifier":
            cls = "id"
        elif t in LIT_TYPES:
            cls = "lit"
        elif txt in KEYWORDS and t == txt:
            cls = "kw"
        elif txt in OPERATORS:
            cls = "op"
        elif txt in DELIMS or t in DELIMS:
            cls = "dl"
        else:
            cls = "lit" if t.endswith("_expression") else "dl"
        out.append(("t", cls, node.start_byte, node.end_byte, t, q))
        return
    for c in node.children:
        _leaves(c, b, out, q)


def comment_key(raw: str) -> str:
    """Wording of a comment: kind + text with indentation / delimiter padding removed."""
    if raw.startswith("/*"):
        doc = raw.startswith("/**") and not raw.startswith("/**/")
        inner = raw[3 if doc else 2:]
        if inner.endswith("*/"):
            inner = inner[:-2]
        lines = [ln.strip() for ln in inner.split("\n")]
        while lines and lines[0] == "":
            lines.pop(0)
        while lines and lines[-1] == "":
            lines.pop()
        return ("D:" if doc else "B:") + "\n".join(lines)
    if raw.startswith("#"):
        return "L:" + raw[1:].strip()
    return "?:" + raw.strip()


def _gap(s: str, q: bool = False) -> dict:
    nl = s.count("\n")
    tail = s.rsplit("\n", 1)[-1] if nl else s
    trail = bool(re.search(r"[ \t\r]\n", s))
    other = bool(re.search(r"[^ \t\n]", s))
    return {"k": "g", "nl": min(nl, 3), "sp": min(tail.count(" "), 99), "tab": "\t" in s,
            "tr": trail, "ot": other, "q": q}


def items(text: str | bytes) -> list[dict]:
    """gap, item, gap, item, ..., gap  (always starts and ends with a gap)."""
    root, b = cst(text)
    leaves: list = []
    _leaves(root, b, leaves)
    leaves.sort(key=lambda x: (x[2], x[3]))
    out: list[dict] = []
    pos = 0
    lastq = 0
    for kind, cls, s, e, t, q in leaves:
        if s < pos:          # overlapping (error recovery) -- keep source order, no negative gaps
            s = pos
            if e <= s:
                continue
        out.append(_gap(b[pos:s].decode("utf-8", "replace"), q != 0 and q == lastq))
        lastq = q
        raw = b[s:e].decode("utf-8", "replace")
        if kind == "c":
            out.append({"k": "c", "s": comment_key(raw), "ml": "\n" in raw,
                        "kind": "line" if raw.startswith("#") else "block"})
        else:
            it = {"k": "t", "c": cls, "s": raw, "n": raw}
            if t == "integer_expression":
                it["n"] = raw.lstrip("0") or "0"
                it["c"] = "int"
            out.append(it)
        pos = e
    out.append(_gap(b[pos:].decode("utf-8", "replace")))
    return out


def tokens(text: str | bytes) -> list[str]:
    return [i["s"] for i in items(text) if i["k"] == "t"]


# ---------------------------------------------------------------------------
# positions: the same stream with byte extents, and CST context helpers (used for
# violation signatures only, never for verdicts)

def items_pos(text: str | bytes) -> tuple[list[dict], list[tuple[int, int]]]:
    root, b = cst(text)
    leaves: list = []
    _leaves(root, b, leaves)
    leaves.sort(key=lambda x: (x[2], x[3]))
    its = items(text)
    pos: list[tuple[int, int]] = []
    p = 0
    for kind, cls, s, e, t, _q in leaves:
        if s < p:
            s = p
            if e <= s:
                continue
        pos.append((p, s))
        pos.append((s, e))
        p = e
    pos.append((p, len(b)))
    assert len(pos) == len(its), (len(pos), len(its))
    return its, pos


def enclosing_type(text: str | bytes, start: int, end: int) -> str:
    """Type of the smallest named CST node that strictly contains [start, end)."""
    root, b = cst(text)
    node = root
    while True:
        nxt = None
        for c in node.children:
            if c.start_byte <= start and end <= c.end_byte and c.is_named and c.child_count > 0 \
                    and (c.start_byte < start or end < c.end_byte or start == end):
                nxt = c
                break
        if nxt is None:
            return node.type
        node = nxt


def kind_of(item: dict | None) -> str:
    if item is None:
        return "EOF"
    if item["k"] == "c":
        return "comment"
    if item["k"] == "g":
        return "gap"
    if item["c"] in ("kw", "dl"):
        return item["s"]
    return item["c"]


def _tc_commas(node, out):
    """Byte extents of formals trailing commas that tree-sitter-nix 0.1.0 reports as a MISSING formal or as
    an ERROR node holding just the comma (comments may sit between the comma and the closing brace)."""
    if node.type == "formals":
        ch = [c for c in node.children if c.type != "comment"]
        for i, c in enumerate(ch):
            if c.type == "formal" and c.child_count >= 1 and c.children[0].is_missing and i > 0 and ch[i - 1].type == ",":
                out.append((ch[i - 1].start_byte, ch[i - 1].end_byte))
            elif c.type == "ERROR" and c.child_count == 1 and c.children[0].type == "," \
                    and i + 1 < len(ch) and ch[i + 1].type == "}" and i > 0 and ch[i - 1].type == "formal":
                out.append((c.start_byte, c.end_byte))
    for c in node.children:
        if c.has_error or c.type == "formals":
            _tc_commas(c, out)


def has_error_mod_tc(text: str | bytes) -> bool:
    """`Contains a syntax error', modulo the one construct the pinned grammar (tree-sitter-nix 0.1.0)
    wrongly rejects although Nix accepts it and C01 explicitly allows the formatter to emit it: a trailing
    comma in a formals list.  Such commas are removed before the text is judged."""
    b = text.encode("utf-8") if isinstance(text, str) else text
    for _ in range(50):
        root, b = cst(b)
        if not root.has_error:
            return False
        spans: list = []
        _tc_commas(root, spans)
        if not spans:
            return True
        for s, e in sorted(spans, reverse=True):
            b = b[:s] + b[e:]
    return True


# ---------------------------------------------------------------------------
# doc(text): the Doc.tla record

_IDENT = re.compile(r"^[A-Za-z_][A-Za-z0-9_'-]*$")
_ESC = {"n": "\n", "r": "\r", "t": "\t"}


def nix_decode(body: str) -> str:
    """What Nix reads for the body of a "..." literal without interpolation (independent decoder)."""
    out, i = [], 0
    while i < len(body):
        ch = body[i]
        if ch == "\\" and i + 1 < len(body):
            nx = body[i + 1]
            out.append(_ESC.get(nx, nx))
            i += 2
            continue
        out.append(ch)
        i += 1
    return "".join(out)


def _text(node, b) -> str:
    return b[node.start_byte:node.end_byte].decode("utf-8", "replace")


def _attr_names(attrpath, b) -> list[str]:
    names = []
    for c in attrpath.children:
        if c.type == "identifier":
            names.append(_text(c, b))
        elif c.type == "string_expression":
            if any(x.type == "interpolation" for x in c.children):
                names.append("${dyn}" + _text(c, b))
            else:
                names.append(nix_decode(_text(c, b)[1:-1]))
        elif c.type == "interpolation":
            names.append("${dyn}" + _text(c, b))
    return names


def _tok_text(node, b) -> str:
    lv: list = []
    _leaves(node, b, lv)
    lv.sort(key=lambda x: (x[2], x[3]))
    out, lastq = [], 0
    for k, c, s, e, t, q in lv:
        if k != "t":
            continue
        txt = b[s:e].decode("utf-8", "replace")
        # tokens of one string / path literal are contiguous text; everything else is separated by one blank
        if out and not (q != 0 and q == lastq):
            out.append(" ")
        out.append(txt)
        lastq = q
    return "".join(out)


def _val(node, b) -> dict:
    t = node.type
    if t == "integer_expression":
        v = int(_text(node, b))
        if abs(v) < 2 ** 31:
            return {"k": "int", "v": v}
    if t == "variable_expression":
        n = _text(node, b)
        if n not in ("true", "false", "null"):
            return {"k": "ref", "n": n}
    if t in ("attrset_expression", "rec_attrset_expression"):
        return _set(node, b)
    return {"k": "opq", "h": _tok_text(node, b)}


def _set_items(bs_children, b, open_end: int | None) -> tuple[list, list]:
    """items of a binding_set (children incl. comments), with lead / eol comments and blank flags."""
    its: list[dict] = []
    lead: list[str] = []
    prev_end = open_end
    prev_row = None
    first_of_group_start = None
    blank = False
    for c in bs_children:
        if c.type == "comment":
            key = comment_key(_text(c, b))
            if its and prev_row is not None and c.start_point.row == prev_row and not lead:
                its[-1]["eol"] = (its[-1]["eol"] + " " + key).strip() if its[-1]["eol"] else key
                prev_end = c.end_byte
                continue
            if not lead and prev_end is not None:
                blank = b[prev_end:c.start_byte].count(b"\n") >= 2
            lead.append(key)
            prev_end = c.end_byte
            prev_row = None
            continue
        if c.type not in ("binding", "inherit", "inherit_from"):
            continue
        if not lead and prev_end is not None:
            blank = b[prev_end:c.start_byte].count(b"\n") >= 2
        lblank = bool(lead) and prev_end is not None and b[prev_end:c.start_byte].count(b"\n") >= 2
        if c.type == "binding":
            ap = c.child_by_field_name("attrpath") or next(x for x in c.children if x.type == "attrpath")
            vn = c.child_by_field_name("expression") or [x for x in c.named_children if x.type not in ("attrpath", "comment")][-1]
            it = {"k": "b", "ap": _attr_names(ap, b), "val": _val(vn, b), "lead": lead, "eol": "", "blank": blank, "lblank": lblank}
            inner = [comment_key(_text(x, b)) for x in c.children if x.type == "comment"]
            if inner:
                it["inner"] = inner
        else:
            names = []
            src = ""
            for x in c.named_children:
                if x.type == "inherited_attrs":
                    for y in x.named_children:
                        names.append(_text(y, b) if y.type == "identifier" else nix_decode(_text(y, b)[1:-1]))
                elif x.type != "comment":
                    src = _tok_text(x, b)
            it = {"k": "i", "src": src, "names": names, "lead": lead, "eol": "", "blank": blank, "lblank": lblank}
        its.append(it)
        lead = []
        blank = False
        prev_end = c.end_byte
        prev_row = c.end_point.row
    return its, lead


def _set(node, b) -> dict:
    rec = node.type == "rec_attrset_expression"
    bs = next((c for c in node.children if c.type == "binding_set"), None)
    opener = next(c for c in node.children if c.type == "{")
    kids = []
    for c in node.children:
        if c.type == "binding_set":
            kids.extend(c.children)
        elif c.type == "comment":
            kids.append(c)
    kids.sort(key=lambda x: x.start_byte)
    its, dang = _set_items(kids, b, opener.end_byte)
    return {"k": "set", "rec": rec, "ml": b"\n" in b[node.start_byte:node.end_byte], "items": its, "dang": dang}


_FUNCTIONLIKE = {"variable_expression", "select_expression", "apply_expression", "function_expression"}


def _strip_paren(node):
    n = 0
    while node.type == "parenthesized_expression":
        node = node.child_by_field_name("expression") or node.named_children[0]
        n += 1
    return node, n


def doc(text: str | bytes) -> dict:
    root, b = cst(text)
    d = {"shape": "ok", "wrap": [], "layers": [], "body": {"k": "set", "rec": False, "ml": False, "items": [], "dang": []},
         "lead": [], "trail": [], "nl": 0, "allc": []}
    tail = b.decode("utf-8", "replace")
    d["nl"] = min(3, len(tail) - len(tail.rstrip("\n")))
    d["allc"] = [i["s"] for i in items(b) if i["k"] == "c"]      # every comment of the text, in order
    if root.has_error:
        d["shape"] = "error"
        return d
    exprs = [c for c in root.children if c.type != "comment"]
    if not exprs:
        d["shape"] = "empty"
        return d
    if len(exprs) != 1:
        d["shape"] = "noneditable"
        return d
    e = exprs[0]
    d["lead"] = [comment_key(_text(c, b)) for c in root.children if c.type == "comment" and c.start_byte < e.start_byte]
    d["trail"] = [comment_key(_text(c, b)) for c in root.children if c.type == "comment" and c.start_byte >= e.end_byte]
    node = e
    pending: list = []
    envs: list = []           # every let seen, outermost first (for scoping): [{"at": len(wrap), "items": ...}]

    def flush():
        for p in pending:
            d["wrap"].append("let")
        pending.clear()
    while True:
        t = node.type
        if t == "let_expression":
            bs = next((c for c in node.children if c.type == "binding_set"), None)
            let_tok = next(c for c in node.children if c.type == "let")
            kids = [c for c in node.children if c.type == "comment" and c.start_byte < (node.child_by_field_name("body").start_byte)]
            kids += list(bs.children) if bs is not None else []
            kids.sort(key=lambda x: x.start_byte)
            its, dang = _set_items([k for k in kids if k.start_byte < next(c for c in node.children if c.type == "in").start_byte], b, let_tok.end_byte)
            pending.append(its)
            node = node.child_by_field_name("body")
        elif t == "function_expression":
            flush()
            d["wrap"].append("lam_formals" if any(c.type == "formals" for c in node.children) else "lam_id")
            node = node.child_by_field_name("body")
        elif t == "with_expression":
            flush(); d["wrap"].append("with"); node = node.child_by_field_name("body")
        elif t == "assert_expression":
            flush(); d["wrap"].append("assert"); node = node.child_by_field_name("body")
        elif t == "parenthesized_expression":
            flush(); d["wrap"].append("paren"); node = node.child_by_field_name("expression") or node.named_children[0]
        elif t == "apply_expression":
            fn, _ = _strip_paren(node.child_by_field_name("function"))
            if fn.type not in _FUNCTIONLIKE:
                d["shape"] = "noneditable"
                return d
            flush(); d["wrap"].append("call"); node = node.child_by_field_name("argument")
        elif t in ("attrset_expression", "rec_attrset_expression"):
            d["body"] = _set(node, b)
            d["layers"] = [p for p in pending if p]      # a binding-less let is no layer
            return d
        else:
            d["shape"] = "noneditable"
            return d


# ---------------------------------------------------------------------------
# chain_of(text): the Scoping.tla chain around the reference `x = <name>;' (independent reader)

def _binds_of(nodes, b) -> tuple[list[dict], object, object]:
    """(binds, node of k's value, node of x's value) of a binding_set's children."""
    binds, knode, xnode = [], None, None
    for c in nodes:
        if c.type == "binding":
            ap = next(x for x in c.children if x.type == "attrpath")
            names = _attr_names(ap, b)
            vn = [x for x in c.named_children if x.type not in ("attrpath", "comment")][-1]
            if names == ["k"]:
                knode = vn
                continue
            if names == ["x"]:
                xnode = vn
                continue
            if len(names) != 1:
                continue
            if vn.type == "integer_expression":
                binds.append({"n": names[0], "k": "lit", "v": int(_text(vn, b)), "m": ""})
            elif vn.type == "variable_expression":
                binds.append({"n": names[0], "k": "ref", "v": 0, "m": _text(vn, b)})
            elif vn.type == "attrset_expression":
                bs2 = next((x for x in vn.children if x.type == "binding_set"), None)
                sub, _, _ = _binds_of(bs2.children if bs2 else [], b)
                binds.append({"n": names[0], "k": "setv", "v": 0, "m": "", "sv": sub})
            else:
                binds.append({"n": names[0], "k": "opq", "v": 0, "m": _tok_text(vn, b)})
        elif c.type == "inherit":
            for x in c.named_children:
                if x.type == "inherited_attrs":
                    for y in x.named_children:
                        binds.append({"n": _text(y, b), "k": "inh", "v": 0, "m": ""})
        elif c.type == "inherit_from":
            src = next((x for x in c.named_children if x.type not in ("inherited_attrs", "comment")), None)
            for x in c.named_children:
                if x.type == "inherited_attrs":
                    for y in x.named_children:
                        binds.append({"n": _text(y, b), "k": "inhfrom", "v": 0, "m": _text(src, b) if src is not None else ""})
    return binds, knode, xnode


def chain_of(text: str | bytes) -> dict | None:
    root, b = cst(text)
    if root.has_error:
        return None
    node = next((c for c in root.children if c.type != "comment"), None)
    frames: list[dict] = []
    x = None
    if node is not None and node.type == "apply_expression":
        fn, _ = _strip_paren(node.child_by_field_name("function"))
        arg, _ = _strip_paren(node.child_by_field_name("argument"))
        if fn.type == "function_expression" and arg.type == "attrset_expression":
            fm = next((c for c in fn.children if c.type == "formals"), None)
            abs_ = next((c for c in arg.children if c.type == "binding_set"), None)
            argb, _, _ = _binds_of(abs_.children if abs_ else [], b)
            supplied = {q["n"]: q["v"] for q in argb if q["k"] == "lit"}
            binds = []
            for f in (fm.children if fm is not None else []):
                if f.type == "formal":
                    nm = _text(f.child_by_field_name("name") or f.named_children[0], b)
                    d = f.child_by_field_name("default")
                    binds.append({"n": nm, "k": "formal", "v": int(_text(d, b)) if d is not None and d.type == "integer_expression" else 0,
                                  "m": "", "arg": supplied.get(nm, 0)})
            frames.append({"kind": "formals", "binds": binds})
            node = fn.child_by_field_name("body")
    while node is not None:
        t = node.type
        if t == "let_expression":
            bs = next((c for c in node.children if c.type == "binding_set"), None)
            binds, _, _ = _binds_of(bs.children if bs else [], b)
            frames.append({"kind": "let", "binds": binds})
            node = node.child_by_field_name("body")
        elif t == "with_expression":
            env = node.child_by_field_name("environment")
            bs = next((c for c in env.children if c.type == "binding_set"), None) if env is not None else None
            binds, _, _ = _binds_of(bs.children if bs else [], b)
            frames.append({"kind": "with", "binds": binds})
            node = node.child_by_field_name("body")
        elif t in ("attrset_expression", "rec_attrset_expression"):
            bs = next((c for c in node.children if c.type == "binding_set"), None)
            binds, knode, xnode = _binds_of(bs.children if bs else [], b)
            kind = "rec" if t == "rec_attrset_expression" else "set"
            if xnode is not None:
                if kind == "rec" or binds:
                    frames.append({"kind": kind, "binds": binds})
                x = {"k": "ref", "n": _text(xnode, b)} if xnode.type == "variable_expression" else \
                    {"k": "int", "v": int(_text(xnode, b))} if xnode.type == "integer_expression" else {"k": "opq", "h": _tok_text(xnode, b)}
                break
            frames.append({"kind": kind, "binds": binds})
            node = knode
        elif t == "parenthesized_expression":
            node = node.child_by_field_name("expression") or node.named_children[0]
        elif t == "apply_expression":
            # a call below other frames: `({ formals }: body) name' - the argument is a NAME resolved at the call site
            fn, _ = _strip_paren(node.child_by_field_name("function"))
            arg, _ = _strip_paren(node.child_by_field_name("argument"))
            if fn.type != "function_expression" or arg.type != "variable_expression":
                return None
            fm = next((c for c in fn.children if c.type == "formals"), None)
            binds = []
            for f in (fm.children if fm is not None else []):
                if f.type == "formal":
                    nm = _text(f.child_by_field_name("name") or f.named_children[0], b)
                    d = f.child_by_field_name("default")
                    binds.append({"n": nm, "k": "formal", "v": int(_text(d, b)) if d is not None and d.type == "integer_expression" else 0,
                                  "m": "", "arg": 0})
            frames.append({"kind": "formals", "binds": binds, "argn": _text(arg, b)})
            node = fn.child_by_field_name("body")
        else:
            return None
    if x is None:
        return None
    return {"ch": frames, "x": x}


# ---------------------------------------------------------------------------
# data(): Nix data syntax -> the `reading' of Values.tla

def _data(node, b) -> dict:
    t = node.type
    if t == "parenthesized_expression":
        inner = node.child_by_field_name("expression") or node.named_children[0]
        return _data(inner, b)
    if t == "integer_expression":
        return {"t": "int", "s": str(int(_text(node, b)))}
    if t == "float_expression":
        txt = _text(node, b)
        try:
            num = repr(float(txt))
        except ValueError:
            num = "unparsable"
        return {"t": "float", "lex": list(txt), "num": num}
    if t == "unary_expression":
        op = node.children[0]
        arg = node.child_by_field_name("argument") or node.named_children[-1]
        if _text(op, b) == "-":
            r = _data(arg, b)
            if r["t"] == "int":
                return {"t": "int", "s": str(-int(r["s"]))}
            if r["t"] == "float":
                return {"t": "float", "lex": ["-"] + r["lex"], "num": repr(-float(r["num"])) if r["num"] != "unparsable" else "unparsable"}
        return {"t": "notdata", "why": "unary"}
    if t == "variable_expression":
        n = _text(node, b)
        if n in ("true", "false"):
            return {"t": "bool", "b": n == "true"}
        if n == "null":
            return {"t": "null"}
        return {"t": "notdata", "why": "identifier"}
    if t == "string_expression":
        if any(c.type == "interpolation" for c in node.children):
            return {"t": "notdata", "why": "interpolation"}
        return {"t": "str", "raw": list(_text(node, b)[1:-1])}
    if t == "list_expression":
        return {"t": "list", "xs": [_data(c, b) for c in node.named_children if c.type != "comment"]}
    if t in ("attrset_expression", "rec_attrset_expression"):
        ks, vs = [], []
        bs = next((c for c in node.children if c.type == "binding_set"), None)
        for c in (bs.children if bs else []):
            if c.type == "binding":
                ap = next(x for x in c.children if x.type == "attrpath")
                names = _attr_names(ap, b)
                vn = [x for x in c.named_children if x.type not in ("attrpath", "comment")][-1]
                if len(names) != 1:
                    return {"t": "notdata", "why": "attrpath"}
                ks.append(names[0])
                vs.append(_data(vn, b))
            elif c.type != "comment":
                return {"t": "notdata", "why": c.type}
        return {"t": "dict", "ks": ks, "vs": vs}
    if t == "apply_expression":
        return {"t": "notdata", "why": "application"}
    return {"t": "notdata", "why": t}


def data(text: str | bytes, where: str = "top") -> dict:
    """where: "top" (whole expression), "k" (value of binding k of the top-level set), "first" (first list element),
    "let_k" (value of the let binding k)."""
    root, b = cst(text)
    if root.has_error:
        return {"t": "notdata", "why": "syntax_error"}
    exprs = [c for c in root.children if c.type != "comment"]
    if len(exprs) != 1:
        return {"t": "notdata", "why": "not_one_expression"}
    node = exprs[0]
    if where == "let_k":
        if node.type != "let_expression":
            return {"t": "notdata", "why": "no_let"}
        bs = next((c for c in node.children if c.type == "binding_set"), None)
        for c in (bs.children if bs else []):
            if c.type == "binding" and _attr_names(next(x for x in c.children if x.type == "attrpath"), b) == ["k"]:
                return _data([x for x in c.named_children if x.type not in ("attrpath", "comment")][-1], b)
        return {"t": "notdata", "why": "no_binding_k"}
    r = _data(node, b)
    if where == "top":
        return r
    if where == "k":
        if r["t"] != "dict" or "k" not in r["ks"]:
            return {"t": "notdata", "why": "no_binding_k" if r["t"] == "dict" else r.get("why", r["t"])}
        return r["vs"][r["ks"].index("k")]
    if where == "first":
        if r["t"] != "list" or not r["xs"]:
            return {"t": "notdata", "why": r.get("why", "no_list")}
        return r["xs"][0]
    raise ValueError(where)


def has_duplicate_attrs(text: str | bytes) -> bool:
    """Nix's own parser rejects a set that defines the same attribute path twice (`attribute already defined');
    tree-sitter does not.  Such texts are not `programs that parse without error' for C01."""
    root, b = cst(text)

    def walk(node) -> bool:
        if node.type == "binding_set":
            seen = set()
            for c in node.children:
                if c.type == "binding":
                    ap = next((x for x in c.children if x.type == "attrpath"), None)
                    if ap is None:
                        continue
                    names = tuple(_attr_names(ap, b))
                    if any(n.startswith("${dyn}") for n in names):
                        continue
                    if names in seen:
                        return True
                    seen.add(names)
        return any(walk(c) for c in node.children)
    return walk(root)


# ---------------------------------------------------------------------------
# line_info(text): indentation facts for C18_Indent (own-line comments and closing delimiters)

_CLOSERS = {"}": "{", "]": "[", ")": "("}


def line_info(text: str | bytes) -> list[dict]:
    """One record per line that starts with an own-line comment, a closing delimiter or code:
    [kind: "comment" | "close" | "code" | "soft" (operator / in / then / else: constrains nothing), ind, open_ind]."""
    root, b = cst(text)
    leaves: list = []
    _leaves(root, b, leaves)
    leaves.sort(key=lambda x: (x[2], x[3]))
    line_starts = [0]
    for i, ch in enumerate(b):
        if ch == 10:
            line_starts.append(i + 1)

    def line_of(pos: int) -> int:
        lo, hi = 0, len(line_starts) - 1
        while lo < hi:
            mid = (lo + hi + 1) // 2
            if line_starts[mid] <= pos:
                lo = mid
            else:
                hi = mid - 1
        return lo

    def indent_of_line(ln: int) -> int:
        s = line_starts[ln]
        e = s
        while e < len(b) and b[e] == 32:
            e += 1
        return e - s
    out: list[dict] = []
    seen_lines: set = set()
    skip_until = -1            # lines covered by a multi-line token (indented string body, block comment) are not judged
    for kind, cls, s, e, t, q in leaves:
        ln = line_of(s)
        first_on_line = b[line_starts[ln]:s].strip(b" ") == b""
        if first_on_line and ln not in seen_lines and ln > skip_until and (q == 0 or b[s:e] in (b"''", b"\"")):
            seen_lines.add(ln)
            txt = b[s:e].decode("utf-8", "replace")
            rec = {"ind": s - line_starts[ln], "open_ind": 0, "kind": "code", "n": ln, "at": s}
            if kind == "c":
                rec["kind"] = "comment"
            elif txt in _CLOSERS and cls == "dl":
                # the opener: the matching delimiter token among the siblings of this token's CST node
                node = root.descendant_for_byte_range(s, e)
                op = None
                par = node.parent if node is not None else None
                if par is not None:
                    for c in par.children:
                        if c.type == _CLOSERS[txt] and c.start_byte < s:
                            op = c
                    # formals / binding_set wrappers: the brace may belong to the grand-parent
                if op is None and par is not None and par.parent is not None:
                    for c in par.parent.children:
                        if c.type == _CLOSERS[txt] and c.start_byte < s:
                            op = c
                if op is not None:
                    rec["kind"] = "close"
                    rec["open_ind"] = indent_of_line(line_of(op.start_byte))
                else:
                    rec["kind"] = "soft"
            elif cls == "op" or (cls == "kw" and txt in ("in", "then", "else", "or")) or txt in (":", ";", ",", ".", "@", "=", "?"):
                rec["kind"] = "soft"
            out.append(rec)
        end_ln = line_of(max(s, e - 1))
        if end_ln > ln:
            skip_until = max(skip_until, end_ln if kind == "c" else end_ln)
    return out
