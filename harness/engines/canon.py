"""C02: Canon.tla documents -> canonical printer -> real parse/rebuild -> Fmt_Trace.tla (canonical mode: identity)."""
from __future__ import annotations

import json

from .. import symptoms, tlc
from ..common import Run
from ..concretize import render_canon
from ..project import has_error
from . import layout


def model_docs(tier: str, seed: int, run: Run) -> list[dict]:
    dig = tlc.spec_digest("Canon")
    cfg = f"Canon_{tier}.cfg"

    def ex():
        res = tlc.must_ok(tlc.run("Canon", cfg, workers=1, timeout=7200, heap="8g"), "Canon")
        return {"printed": res.printed, "generated": res.generated, "distinct": res.distinct}
    d = tlc.cached(f"canon-{cfg}-{dig}", ex)
    if tier == "thorough":
        # two-part documents without let-gap trivia (exhaustive) + every one-part document with it (the quick model)
        def exq():
            res = tlc.must_ok(tlc.run("Canon", "Canon_quick.cfg", workers=1, timeout=7200, heap="8g"), "Canon")
            return {"printed": res.printed, "generated": res.generated, "distinct": res.distinct}
        dq = tlc.cached(f"canon-Canon_quick.cfg-{dig}", exq)
        d = {"printed": d["printed"] + dq["printed"], "generated": d["generated"] + dq["generated"], "distinct": d["distinct"] + dq["distinct"]}
    nsim = 300 if tier == "quick" else 3000

    def sim():
        res = tlc.must_ok(tlc.run("Canon", "Canon_sim.cfg", workers=1, timeout=3600,
                                  extra=("-simulate", f"num={nsim}", "-depth", "40", "-seed", str(seed + 3))), "Canon sim")
        seen, out = set(), []
        for x in res.printed:
            k = json.dumps(x, sort_keys=True)
            if k not in seen:
                seen.add(k)
                out.append(x)
        return {"printed": out[: nsim * 10]}
    sm = tlc.cached(f"canon-sim-{dig}-{nsim}-{seed}", sim)
    run.states += d["distinct"]
    run.transitions += d["generated"]
    run.coverage.setdefault("tlc_runs", []).append({"run": f"Canon/{cfg} (exhaustive small documents)", "distinct_states": d["distinct"],
                                                    "documents": len(d["printed"])})
    run.coverage["tlc_runs"].append({"run": f"Canon/Canon_sim.cfg -simulate num={nsim} (documents of 14 parts, depth <= 3)", "documents": len(sm["printed"])})
    return d["printed"] + sm["printed"]


def check(tier: str, seed: int) -> int:
    run = Run("C02", tier, seed)
    res = tlc.must_ok(tlc.run("MC_Fmt", "MC_Fmt_canon.cfg", workers=8, extra=("-coverage", "1"), timeout=3600), "MC_Fmt canonical mode")
    run.add_model(res, "MC_Fmt/MC_Fmt_canon.cfg (canonical mode: Inv_C02)")
    for v in res.violated:
        run.violation(f"model|{v}", v, {"tlc_tail": res.stdout[-1500:]})
    docs = model_docs(tier, seed, run)
    if len(docs) > 160000:          # thorough: the two-part product is sampled (memory of the sandbox), the rest is kept whole
        import random
        rnd = random.Random(seed)
        keep = set(rnd.sample(range(len(docs)), 160000))
        run.coverage["documents_sampled_from"] = len(docs)
        docs = [d for i, d in enumerate(docs) if i in keep]
    cases, seen, discards = [], set(), 0
    for d in docs:
        t = render_canon(d, seed)
        if t in seen:
            continue
        seen.add(t)
        if has_error(t):
            discards += 1
            continue
        cases.append({"id": len(cases) + 1, "text": t, "key": d["head"], "con": "canon", "cmt": True, "doc": d})
    layout.execute(cases)
    verdicts = layout.judge(cases, run, shards=8, label="Fmt_Trace (canonical mode)")
    for c in cases:
        v = verdicts.get(c["id"], {})
        r = c["r"]
        run.case(c["text"], nontrivial=True)
        if "fail" in r:
            run.violation("C02_" + symptoms.refusal_key(r["fail"]), "C02_Identity", {"input": c["text"], "exception": r["fail"]})
        elif v.get("c02") is False:
            run.violation("C02|" + symptoms.c06_key(c["text"], r["out"]).split("|", 1)[1] + f"|head={c['key']}" * 0, "C02_Identity",
                          {"input": c["text"], "output": r["out"], "head": c["key"]})
        elif "c02" not in v:
            raise tlc.TLCFailure(f"no verdict for document {c['id']}")
    for c in cases[:: max(1, len(cases) // 4)][:4]:
        run.sample({"document": c["text"], "identical": c["r"].get("out") == c["text"]})
    run.assumptions += ["the canonical printer (harness/concretize.py render_canon) is this check's reading of RFC 0166 for the package-file idiom; "
                        "nixfmt is not available offline; rules that proved arguable were dropped (DESIGN.md calibration log)"]
    return run.finish(rule=("documents = every Canon.tla state with <= 1 (quick) / 2 (thorough) parts under every head / let / rec skeleton, "
                            "plus -simulate documents of 14 parts nested to depth 3; rendered by the canonical printer, round-tripped by the "
                            "real code, judged by TLC (Fmt_Trace, canonical mode: output = input item for item and byte for byte)"),
                      extra={"generator_discards": discards})
