"""Edit engine: Edit.tla histories -> real set_value/remove_value on one object -> Edit_Trace.tla verdicts.
Serves C04, C05, C08, C09 (and the edit half of C06)."""
from __future__ import annotations

import json
import random
import re
import shutil
import tempfile
from concurrent.futures import ThreadPoolExecutor
from pathlib import Path

from .. import tlc
from ..common import Run
from ..concretize import _val, quote_name, render_doc
from ..pool import pmap
from ..project import cst, doc, has_error, has_error_mod_tc

WRAPS = [[], ["lam_id"], ["lam_formals"], ["with"], ["assert"], ["paren"], ["call"], ["call", "paren"],
         ["call", "paren", "lam_id"], ["lam_formals", "with", "assert"], ["lam_formals", "call"],
         ["lam_id", "paren"], ["assert", "call", "paren"], ["lam_formals", "let", "with"], ["let", "lam_id"],
         ["let", "call"]]
_NPATH_BARE = re.compile(r"^[A-Za-z_][A-Za-z0-9_']*$")


def npath_segment(name: str) -> str:
    if _NPATH_BARE.match(name):
        return name
    return '"' + name.replace("\\", "\\\\").replace('"', '\\"') + '"'


def npath(sel: int, path: list[str]) -> str:
    return "@" * sel + ".".join(npath_segment(n) for n in path)


# spellings of Edit!BadPaths / Edit!BadValues (every one is refused by NixText!Tokenize / is not one expression)
BAD_PATH = {"path:empty": lambda at, b: at, "path:empty_segment": lambda at, b: at + b + "..x",
            "path:trailing_dot": lambda at, b: at + b + ".", "path:leading_dot": lambda at, b: at + "." + b,
            "path:unterminated_quote": lambda at, b: at + b + '."x', "path:dangling_escape": lambda at, b: at + b + '."x\\',
            "path:not_identifier": lambda at, b: at + b + ".x y", "path:scope_in_segment": lambda at, b: at + b + ".@x"}
BAD_VALUE = {"value:suite": "{ k = ", "value:empty": "", "value:comment_only": "# nothing\n", "value:unclosed": "{ k = 7;", "value:dangling_operator": "7 +",
             "value:stray_close": "7 ]", "value:two_statements": "7; 8"}
# spellings of a well-formed value (the abstract value is the same; `vc' = the comments the text carries)
VALUE_FORMS = {"": "{v}", "lead_ws": "  {v}", "trail_nl": "{v}\n", "tab": "\t{v}\t", "lead_nl": "\n{v}",
               "eol_comment": "{v} # note", "lead_block": "/* note */ {v}", "lead_line": "# note\n{v}", "trail_block": "{v} /* note */"}


def op_texts(o: dict, form: str = "") -> dict:
    """npath / vtext of a model operation (malformed requests are spelled here)."""
    bad = o.get("bad", "")
    at, b = "@" * o["sel"], ".".join(npath_segment(n) for n in o["path"])
    np_ = BAD_PATH[bad](at, b) if bad.startswith("path:") else at + b
    vt = BAD_VALUE[bad] if bad.startswith("value:") else VALUE_FORMS[form].replace("{v}", _val(o["v"], 0))
    return {"npath": np_, "vtext": vt, "vform": form if o["f"] == "set" and not bad else ""}


def model_histories(tier: str, seed: int, run: Run) -> list[dict]:
    """Histories from the specification: every depth-1 transition (exhaustive) + random walks (-simulate)."""
    dig = tlc.spec_digest("Edit")

    def emit():
        res = tlc.must_ok(tlc.run("Edit", "Edit_emit.cfg", workers=1, timeout=1800), "Edit emit")
        return {"printed": res.printed, "generated": res.generated, "distinct": res.distinct}
    d1 = tlc.cached(f"edit-emit-{dig}", emit)
    nsim = 400 if tier == "quick" else 4000

    def sim():
        res = tlc.must_ok(tlc.run("Edit", "Edit_sim.cfg", workers=1, timeout=1800,
                                  extra=("-simulate", f"num={nsim}", "-depth", "8", "-seed", str(seed + 11))), "Edit sim")
        seen, out = set(), []
        for h in res.printed:
            k = json.dumps(h, sort_keys=True)
            if k not in seen:
                seen.add(k)
                out.append(h)
        return {"printed": out[: nsim * 3]}
    sm = tlc.cached(f"edit-sim-{dig}-{nsim}-{seed}", sim)
    run.states += d1["distinct"]
    run.transitions += d1["generated"]
    run.coverage.setdefault("tlc_runs", []).append(
        {"run": "Edit/Edit_emit.cfg (all depth-1 transitions)", "distinct_states": d1["distinct"],
         "states_generated": d1["generated"], "transitions_emitted": len(d1["printed"])})
    run.coverage["tlc_runs"].append({"run": f"Edit/Edit_sim.cfg -simulate num={nsim} -depth 8", "histories": len(sm["printed"])})
    hs = [{"seed": t["pre"], "steps": [{"op": t["op"], "res": t["res"], "why": t["why"], "post": t["post"]}]} for t in d1["printed"]]
    hs += sm["printed"]
    return hs


def make_cases(hists: list[dict], tier: str, seed: int) -> tuple[list[dict], int]:
    rnd = random.Random(seed)
    cases, discards = [], 0
    for h in hists:
        single = len(h["steps"]) == 1
        if single and tier == "quick":
            wraps = [WRAPS[0], rnd.choice(WRAPS[1:]), rnd.choice(WRAPS[1:])]
        elif single:
            wraps = WRAPS
        else:
            wraps = [rnd.choice(WRAPS)] if tier == "quick" else [WRAPS[0], rnd.choice(WRAPS[1:]), rnd.choice(WRAPS[1:])]
        for w in wraps:
            if any(st["op"]["sel"] > 0 for st in h["steps"]) and w and w[-1] == "call" and tier == "quick" and rnd.random() < 0.5:
                pass
            d0 = dict(h["seed"], wrap=w)
            if w and w[-1] == "call" and d0["layers"]:
                continue                       # `f let .. in { }' is not Nix: layers need parentheses there
            text = render_doc(d0)
            if has_error(text):
                discards += 1
                continue
            ops = [dict({"f": st["op"]["f"], "sel": st["op"]["sel"], "path": st["op"]["path"], "v": st["op"]["v"],
                         "bad": st["op"].get("bad", ""), "model_res": st["res"], "model_why": st["why"]}, **op_texts(st["op"]))
                   for st in h["steps"]]
            cases.append({"id": len(cases) + 1, "text": text, "wrap": w, "ops": ops})
            if single and ops[0]["f"] == "set" and not ops[0]["bad"] and h["steps"][0]["res"] == "ok" and w == wraps[0]:
                # the same request with the value spelled differently (surrounding blanks, comments)
                forms = list(VALUE_FORMS)[1:]
                for form in (rnd.sample(forms, 3) if tier == "thorough" else rnd.sample(forms, 2) if rnd.random() < 0.2 else []):
                    cases.append({"id": len(cases) + 1, "text": text, "wrap": w, "ops": [dict(ops[0], **op_texts(h["steps"][0]["op"], form))]})
            if not w and len(d0["layers"]) >= 1 and any(o["sel"] > 0 for o in ops):
                # the same history on the document with an own-line comment after every `in' (layer trivia)
                cases.append({"id": len(cases) + 1, "text": render_doc(d0, in_comments=True), "wrap": w, "ops": ops})
            if not w and (tier == "thorough" or rnd.random() < 0.25):
                # ... and on the same document in a valid but non-canonical layout (C05 / C06 speak about all documents)
                cases.append({"id": len(cases) + 1, "text": render_doc(d0, loose=True), "wrap": w, "ops": ops, "loose": True})
    return cases, discards


def parse_npath(text: str):
    """(sel, names) of an NPath text, or None when malformed (same rules as spec/NixText.tla)."""
    sel = len(text) - len(text.lstrip("@"))
    rest = text[sel:]
    if not rest:
        return None
    segs, buf, q, mode = [], [], False, "bare"
    for ch in rest:
        if mode == "bare":
            if ch == ".":
                if (not q and not buf) or (not q and not _NPATH_BARE.match("".join(buf))):
                    return None
                segs.append("".join(buf)); buf, q = [], False
            elif ch == '"':
                if buf:
                    return None
                mode = "quoted"
            else:
                buf.append(ch)
        elif mode == "quoted":
            if ch == '"':
                mode, q = "bare", True
            elif ch == "\\":
                mode = "escape"
            else:
                buf.append(ch)
        else:
            buf.append({"n": "\n", "r": "\r", "t": "\t"}.get(ch, ch if ch in '"\\' else "\\" + ch))
            mode = "quoted"
    if mode != "bare" or (not q and (not buf or not _NPATH_BARE.match("".join(buf)))):
        return None
    segs.append("".join(buf))
    return sel, segs


def suite_cases(start_id: int) -> list[dict]:
    """The set_value / remove_value calls the repository's own tests make, as one-step histories (already executed)."""
    from .mapping import val_of
    from .suite import record
    _, edits = record()
    out = []
    for e in edits:
        np_ = parse_npath(e.get("npath") or "")
        if np_ is None or not isinstance(e.get("pre"), str) or not isinstance(e.get("post"), str):
            continue
        v = val_of(e["value"]) if e["ev"] == "set" and isinstance(e.get("value"), str) else {"k": "int", "v": 0}
        if v.get("k") == "none":
            continue
        vt = e.get("value", "") if isinstance(e.get("value"), str) else ""
        # a value text that is not exactly one well-formed expression is a malformed request (must be refused)
        badv = ""
        if e["ev"] == "set":
            root_, _ = cst(vt)
            if root_.has_error or len([c_ for c_ in root_.children if c_.type != "comment"]) != 1:
                badv = "value:suite"
        op = {"f": e["ev"], "sel": np_[0], "path": np_[1], "v": v, "bad": badv, "npath": e["npath"], "vtext": vt}
        step = {"res": e["res"], "cur": e["post"], "again": e["post"], "same_snap": True}
        if e["res"] == "ok":
            step["ret"] = e["post"]
        out.append({"id": start_id + len(out), "text": e["pre"], "wrap": ["suite"], "ops": [op], "suite": True,
                    "r": {"text0": e["pre"], "steps": [step]}})
    return out


def execute(cases: list[dict]) -> None:
    todo = [c for c in cases if "r" not in c]
    res = pmap("harness.impl", "run_history", [{"text": c["text"], "ops": c["ops"]} for c in todo], chunk=100)
    for c, r in zip(todo, res):
        c["r"] = r


def region_ok(pre: str, post: str, f: str, res_kind: str) -> bool:
    """Byte clause of C04 for canonical input: the texts differ in ONE contiguous region, and on the side where
    nothing is supposed to change that region is blank (insert: input side; remove: output side); a replacement
    stays inside one binding of the input."""
    if pre == post:
        return True
    a = 0
    m = min(len(pre), len(post))
    while a < m and pre[a] == post[a]:
        a += 1
    b = 0
    while b < m - a and pre[len(pre) - 1 - b] == post[len(post) - 1 - b]:
        b += 1
    rpre, rpost = pre[a:len(pre) - b], post[a:len(post) - b]
    if rpre.strip() == "" or rpost.strip() == "":
        return True          # pure insertion / pure deletion (what was inserted or deleted is judged on the abstract state)
    # replacement: inside one binding node of the input
    root, bb = cst(pre)
    sa, sb = len(pre[:a].encode()), len(pre[:len(pre) - b].encode())

    def inside(node) -> bool:
        if node.type == "binding" and node.start_byte <= sa and sb <= node.end_byte:
            return True
        return any(inside(c) for c in node.children if c.start_byte <= sa and sb <= c.end_byte)
    return inside(root)


def path_class(items: list, path: list[str]) -> str:
    # one root written BOTH as an explicit binding and through attrpath entries (m = { .. }; m.b = ..;)
    if any(x["k"] == "b" and x["ap"] == path[:1] for x in items) and \
            any(x["k"] == "b" and len(x["ap"]) > 1 and x["ap"][0] == path[0] for x in items):
        rest = [x for x in items if not (x["k"] == "b" and len(x["ap"]) > 1 and x["ap"][0] == path[0])]
        return "mixed_root>" + path_class(rest, path)
    for x in items:
        if x["k"] == "b" and x["ap"] == path:
            base = "attrpath_leaf" if len(x["ap"]) > 1 else "leaf"
            return base + ("_set" if x["val"]["k"] == "set" else "_ref" if x["val"]["k"] == "ref" else "")
    for x in items:
        if x["k"] == "b" and len(x["ap"]) < len(path) and path[:len(x["ap"])] == x["ap"]:
            if x["val"]["k"] == "set":
                return ("ap>" if len(x["ap"]) > 1 else "in>") + path_class(x["val"]["items"], path[len(x["ap"]):])
            return "below_leaf"
    for x in items:
        if x["k"] == "b" and len(x["ap"]) > len(path) and x["ap"][:len(path)] == path:
            return "attrpath_root"
    for x in items:
        if x["k"] == "i" and path[0] in x["names"]:
            return "inherited"
    fam = any(x["k"] == "b" and len(x["ap"]) > 1 and x["ap"][0] == path[0] for x in items)
    return ("family_fresh" if fam else "fresh") + str(min(len(path), 3))


def project_case(c: dict):
    """Project every observed step of one history (runs in pool workers: pure CST work, no code under test)."""
    r = c["r"]
    if "fail" in r:
        return None
    seed_doc = doc(r["text0"])      # the state the in-memory object itself rebuilds to before any operation
    steps = []
    prev_text = r["text0"]
    canon = r["text0"] == c["text"]
    for op, st in zip(c["ops"], r["steps"]):
        if "cur" not in st:
            break
        cur = st["cur"]
        vc = doc(op["vtext"] + "\n")["allc"] if op.get("vform") else []
        e = {"op": {"f": op["f"], "sel": op["sel"], "path": op["path"], "v": op["v"], "bad": op.get("bad", ""), "vc": vc},
             "res": st["res"], "post": doc(cur),
             "valid": not has_error_mod_tc(cur),
             "same_text": cur == prev_text and st.get("again") == cur,
             "same_snap": bool(st.get("same_snap", True)),
             "canon": canon,
             "region_ok": region_ok(prev_text, cur, op["f"], st["res"]) if st["res"] == "ok" else True,
             "stable": st.get("reparsed", cur) == st.get("ret", cur) and "reparse_fail" not in st,
             "coherent": st["res"] != "ok" or st.get("ret") == cur}
        steps.append(e)
        canon = e["stable"] and e["valid"]
        prev_text = cur
    return {"seed": seed_doc, "steps": steps}


def build_lines(cases: list[dict]) -> list[str]:
    """Project every observed step; one ndjson line per history."""
    lines = []
    proj = pmap("harness.engines.edit", "project_case",
                [{"text": c["text"], "ops": c["ops"], "r": c["r"]} for c in cases], chunk=200)
    for c, pr in zip(cases, proj):
        if pr is None:
            continue
        c["events"] = pr["steps"]
        lines.append(json.dumps({"id": c["id"], "seed": pr["seed"], "steps": pr["steps"]}, ensure_ascii=False))
    return lines


def judge(cases: list[dict], run: Run, shards: int = 8) -> dict:
    tlc.WORK.mkdir(exist_ok=True)
    tmp = Path(tempfile.mkdtemp(prefix="edit-", dir=tlc.WORK))
    try:
        lines = build_lines(cases)
        results = tlc.run_sharded("Edit_Trace", "Edit_Trace.cfg", lines, what="Edit_Trace", per_shard=12000,
                                  min_shards=max(1, min(shards, len(lines) // 300 + 1)))
        shards = len(results)
        verdicts: dict = {}
        nsteps = 0
        for res in results:
            run.add_model(res)
            for p in res.printed:
                verdicts[(p["id"], p["l"])] = p["bad"]
                nsteps += 1
        run.coverage.setdefault("tlc_runs", []).append(
            {"run": "Edit_Trace", "jvms": shards, "histories": len(lines), "steps_judged": nsteps,
             "wall_s": round(max(r.wall_s for r in results), 1)})
        run.traces += len(lines)
        return verdicts
    finally:
        shutil.rmtree(tmp, ignore_errors=True)


def step_key(clause: str, c: dict, k: int) -> str:
    """Signature of a violating step: clause, operation, selector class, path class, wrappers, #layers."""
    op = c["ops"][k]
    pre = doc(c["r"]["text0"]) if k == 0 else c["events"][k - 1]["post"]
    sel = op["sel"]
    if pre["shape"] != "ok":
        pc = "shape=" + pre["shape"]
    elif sel == 0:
        pc = path_class(pre["body"]["items"], op["path"])
    elif sel <= len(pre["layers"]):
        pc = path_class(pre["layers"][len(pre["layers"]) - sel], op["path"])
    else:
        pc = "nolayer"
    key = f"{clause}|{op['f']}|sel={min(sel, 2)}|{pc}"
    if sel > 0:
        key += f"|layers={min(len(pre.get('layers', [])), 2)}"
    if clause == "C05_Refused":
        import re as _r
        msg = (c["r"]["steps"][k].get("exc") or {}).get("msg", "")
        msg = _r.sub(r"'[^']*'|\"[^\"]*\"", "'_'", msg)          # names are the generator's choice, not part of the symptom
        key += "|" + c["r"]["steps"][k]["res"] + ":" + _r.sub(r"[:=].*$", "", msg)[:50].strip()
    elif clause.split(":")[0] in ("C05_Valid", "C05_Shape", "C09_Addressing", "C08_ErrorClass"):
        w = pre.get("wrap", [])
        key += f"|inner_wrap={w[-1] if w else '-'}"
    return key
