"""C17: Imports.tla cases -> real parse_file + lookups through import chains -> Imports_Trace.tla."""
from __future__ import annotations

import json
import shutil
import tempfile
from concurrent.futures import ThreadPoolExecutor
from pathlib import Path

from .. import tlc
from ..common import Run
from ..pool import pmap

DIRS = {"quick": [["r"], ["r", "a"], ["r", "b"], [], ["w"]],
        "thorough": [["r"], ["r", "a"], ["r", "b"], ["r", "a", "c"], [], ["w"]]}
NAMES = ["m.nix", "t.nix"]


def check(tier: str, seed: int) -> int:
    run = Run("C17", tier, seed)
    cfg = f"Imports_{tier}.cfg"

    def produce():
        res = tlc.must_ok(tlc.run("Imports", cfg, workers=1, extra=("-coverage", "1"), timeout=7200, heap="8g"), "Imports")
        return {"printed": res.printed, "generated": res.generated, "distinct": res.distinct, "violated": res.violated,
                "coverage": res.coverage}
    d = tlc.cached(f"imports-{cfg}-{tlc.spec_digest('Imports')}", produce)
    run.states += d["distinct"]
    run.transitions += d["generated"]
    run.coverage.setdefault("tlc_runs", []).append({"run": f"Imports/{cfg}", "distinct_states": d["distinct"],
                                                    "states_generated": d["generated"], "cases": len(d["printed"])})
    run.coverage.setdefault("coverage_by_action", {})[f"Imports/{cfg}"] = d["coverage"]
    for v in d["violated"]:
        run.violation(f"model|{v}", v, {})
    cases = d["printed"]
    for c in cases:
        c["dirs"] = DIRS[tier]
    if tier == "thorough":
        # the chdir-between-hops histories (generated for MaxHops <= 2 only) belong to the thorough tier as well
        q = "Imports_quick.cfg"

        def produce_q():
            res = tlc.must_ok(tlc.run("Imports", q, workers=1, extra=("-coverage", "1"), timeout=7200, heap="8g"), "Imports")
            return {"printed": res.printed, "generated": res.generated, "distinct": res.distinct, "violated": res.violated,
                    "coverage": res.coverage}
        dq = tlc.cached(f"imports-{q}-{tlc.spec_digest('Imports')}", produce_q)
        run.states += dq["distinct"]
        run.transitions += dq["generated"]
        run.coverage.setdefault("tlc_runs", []).append({"run": f"Imports/{q} (chdir histories)", "distinct_states": dq["distinct"],
                                                        "states_generated": dq["generated"], "cases": len(dq["printed"])})
        moved = [c for c in dq["printed"] if any(h.get("at", c["cwd"]) != c["cwd"] for h in c["chain"])]
        for c in moved:
            c["dirs"] = DIRS["quick"]
        run.coverage["chdir_histories"] = len(moved)
    else:
        moved = []
    if tier == "thorough" and len(cases) > 150000:
        import random
        random.Random(seed).shuffle(cases)
        cases = cases[:150000]
    cases = cases + moved
    for i, c in enumerate(cases):
        c["id"] = i + 1
        c["names"] = NAMES
    obs = pmap("harness.impl", "import_case", cases, chunk=150)
    tlc.WORK.mkdir(exist_ok=True)
    tmp = Path(tempfile.mkdtemp(prefix="imp-", dir=tlc.WORK))
    try:
        lines = [json.dumps({"id": c["id"], "cwd": c["cwd"], "entrySp": c["entrySp"], "chain": c["chain"], "fault": c["fault"],
                             "obs": {"res": o["res"], "val": o["val"], "mro": o["mro"]}}) for c, o in zip(cases, obs)]
        shards = 8
        files = []
        for s in range(shards):
            f = tmp / f"s{s}.ndjson"
            f.write_text("\n".join(lines[s::shards]) + "\n")
            files.append(f)

        def one(f):
            return tlc.must_ok(tlc.run("Imports_Trace", "Imports_Trace.cfg", workers=1, env={"TRACE_FILE": str(f)}, timeout=3600), "Imports_Trace")
        with ThreadPoolExecutor(max_workers=shards) as ex:
            rs = list(ex.map(one, files))
        verdict = {}
        for r in rs:
            run.add_model(r)
            for p in r.printed:
                verdict[p["id"]] = p["bad"]
        run.traces += len(lines)
    finally:
        shutil.rmtree(tmp, ignore_errors=True)
    for c, o in zip(cases, obs):
        bad = verdict.get(c["id"])
        if bad is None:
            raise tlc.TLCFailure(f"no verdict for case {c['id']}")
        run.case(json.dumps([c["cwd"], c["entrySp"], c["chain"], c["fault"]]), nontrivial=True)
        if bad:
            cl = sorted(bad)[0]
            styles = ["abs" if h["sp"]["abs"] else "dot" if h["sp"]["dot"] else "plain" for h in c["chain"]]
            est = "abs" if c["entrySp"]["abs"] else "dot" if c["entrySp"]["dot"] else "plain"
            crossing = [h["file"][:-1] != (c["entry"] if i == 0 else c["chain"][i - 1]["file"])[:-1] for i, h in enumerate(c["chain"])]
            run.violation(f"{cl}|hops={len(c['chain'])}|styles={'+'.join(styles) or '-'}|entry={est}|cwd_is_entry_dir={c['cwd'] == c['entry'][:-1]}"
                          f"|crosses_dir={any(crossing)}|chdir_between_hops={any(h.get('at', c['cwd']) != c['cwd'] for h in c['chain'])}", cl,
                          {"case": {k: c[k] for k in ("cwd", "entry", "entrySp", "chain", "fault")}, "observed": o, "all_clauses": bad})
    for c, o in list(zip(cases, obs))[:: max(1, len(cases) // 5)][:5]:
        run.sample({"cwd": "/".join(c["cwd"]), "entry": "/".join(c["entrySp"]["comps"]), "hops": ["/".join(h["sp"]["comps"]) for h in c["chain"]],
                    "fault": c["fault"], "observed": o})
    run.assumptions += ["layouts are materialised under a scratch directory outside /repo and /verif and removed afterwards",
                        "exhaustive for the tier's directories x file names x hop count x spelling styles x working directories"]
    return run.finish(rule=("every case of Imports.tla (entry file, <= MaxHops imports with abs/./plain spellings across directories, "
                            "working directory, entry spelling, faulty last argument) is materialised with decoy files of the same name "
                            "in every directory, looked up through the real parse_file / Import.__getitem__, and judged by TLC "
                            "(Imports_Trace) by re-resolving the spellings with Target(); the working directory may change before each hop "
                            "(field at of the hop: open, chdir, follow); distinct by case"))
