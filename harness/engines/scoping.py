"""C10 / C11: Scoping.tla chains -> real traversal + Identifier.value / set_value -> Scoping_Trace.tla."""
from __future__ import annotations

import json
import random
import shutil
import tempfile
from concurrent.futures import ThreadPoolExecutor
from pathlib import Path

from .. import tlc
from ..common import Run
from ..concretize import render_chain
from ..pool import pmap
from ..project import chain_of


def model_chains(run: Run, cfg: str = "MC_Scoping_emit_quick.cfg") -> list[dict]:
    def produce():
        res = tlc.must_ok(tlc.run("MC_Scoping", cfg, workers=1, timeout=7200, heap="8g"), "MC_Scoping emit")
        return {"printed": res.printed, "generated": res.generated, "distinct": res.distinct}
    d = tlc.cached(f"scoping-emit-{cfg}-{tlc.spec_digest('Scoping')}", produce)
    run.states += d["distinct"]
    run.transitions += d["generated"]
    run.coverage.setdefault("tlc_runs", []).append({"run": f"MC_Scoping/{cfg} (emission)", "distinct_states": d["distinct"],
                                                    "chains": len(d["printed"])})
    return d["printed"]


def binder_sig(ch: list[dict], name: str) -> str:
    """Innermost-first list of the frames that bind the name: kind:bindkind."""
    out = []
    for f in reversed(ch):
        for b in f["binds"]:
            if b["n"] == name:
                out.append(f"{f['kind']}:{b['k']}")
    return ">".join(out) or "-"


def provenance(c: dict, prop: str) -> str:
    """want = kind of the frame the specification designates (or unbound / cycle); got = where the observed value came from."""
    ch = c["pin"]["ch"]
    m = c["model"]["res"]
    want = c["model"]["ch"][m["at"][0] - 1]["kind"] if m.get("ok") else m.get("why", "?")
    with_binds = any(f["kind"] == "with" and f["binds"] for f in ch)
    inh = any(b["k"] == "inh" for f in ch for b in f["binds"])
    # a right-hand side `n = m' in frame j whose target m is bound lexically only in a frame INSIDE j: resolving it from the
    # reference site (dynamic scoping) finds a binding the defining scope cannot see
    def lex_binds(f, name):
        return f["kind"] in ("let", "rec") and any(b["n"] == name for b in f["binds"])
    dyn = any(b["k"] in ("ref", "inh", "inhfrom") and any(lex_binds(g, b["m"] or b["n"]) for g in ch[j + 1:])
              for j, f in enumerate(ch) for b in f["binds"])
    lexical = any(f["kind"] in ("let", "rec") and any(b["n"] == "a" for b in f["binds"]) for f in ch)
    if prop == "C10":
        r = c["o"]["resolve"]
        if r["res"] != "value":
            got = r["res"]
        else:
            got = "non-literal"
            for f in ch:
                for b in f["binds"]:
                    if b["k"] == "lit" and str(b["v"]) == r.get("text"):
                        got = f["kind"]
        # does a with-environment refer to one of its own bindings (treated as recursive by the code)?
        selfref = any(f["kind"] == "with" and any(b["k"] == "ref" and any(x["n"] == b["m"] for x in f["binds"]) for b in f["binds"]) for f in ch)
        extk = "|ext=" + "+".join(sorted({b["k"] for f in ch for b in f["binds"] if b["k"] in ("inhfrom", "setv", "formal")})) \
            if (not with_binds) and any(b["k"] in ("inhfrom", "setv", "formal") for f in ch for b in f["binds"]) else ""
        callk = "|call_argument_by_name" if ch and ch[-1].get("argn") else ""
        return f"with_frame_has_binds={with_binds}|inherit_in_chain={inh}|inner_rebinding_of_rhs_name={dyn}{extk}{callk}"
    parts = []
    for tag in ("edit", "assign"):
        e = c["o"].get(tag)
        if not e:
            continue
        if e["res"] != "ok":
            parts.append(f"{tag}:{e['res']}")
        else:
            d = diff_chain(c["pin"], chain_of(e["text"]), 99 if tag == "edit" else 98)
            kinds = [ch[j - 1]["kind"] if j > 0 else str(n) for j, n in d["changed"]]
            parts.append(f"{tag}:changed={'+'.join(kinds) or '-'},x={'ref' if d['xref'] else 'lit' if d['xint'] else 'other'}")
    return (f"nested_holder={len(c['keys']) > 1}|with_frame_has_binds={with_binds}|inherit_in_chain={inh}"
            f"|chain_ends={'literal' if m.get('ok') else m.get('why')}|inner_rebinding_of_rhs_name={dyn}")


def diff_chain(a: dict | None, b: dict | None, newv: int) -> dict:
    if a is None or b is None:
        return {"changed": [[-1, "unparsable"]], "xref": False, "xint": False}
    changed = []
    if len(a["ch"]) != len(b["ch"]) or any(x["kind"] != y["kind"] for x, y in zip(a["ch"], b["ch"])):
        changed.append([-1, "structure"])
    else:
        for j, (x, y) in enumerate(zip(a["ch"], b["ch"]), start=1):
            if len(x["binds"]) != len(y["binds"]):
                changed.append([j, "#binds"])
                continue
            for p, q in zip(x["binds"], y["binds"]):
                if p != q:
                    ok = q["n"] == p["n"] and q["k"] == "lit" and q["v"] == newv
                    changed.append([j, p["n"]] if ok else [j, p["n"] + "?"])
    return {"changed": changed, "xref": b["x"] == a["x"], "xint": b["x"] == {"k": "int", "v": newv}}


def registry_part(run: Run, tier: str, seed: int) -> None:
    """C10, histories half: Registry.tla (address reuse, delayed callbacks) + recorded create / resolve / discard histories."""
    import itertools
    ok = tlc.must_ok(tlc.run("Registry", "Registry_ok.cfg", workers=8, extra=("-coverage", "1")), "Registry")
    run.add_model(ok, "Registry/Registry_ok.cfg (4 objects, 2 addresses, delayed callbacks)")
    for v in ok.violated:
        run.violation(f"model|{v}", v, {"tlc_tail": ok.stdout[-1500:]})
    mut = tlc.run("Registry", "Registry_mutant.cfg", workers=4)
    run.coverage["spec_mutant_NoIdentityCheck_refuted"] = "C10_NoStaleContext" in mut.violated
    if "C10_NoStaleContext" not in mut.violated:
        run.notes.append("vacuity: the NoIdentityCheck mutant design was not refuted")
    # every interleaving of [create, resolve, discard] for three documents, plus re-creation rounds
    base = [("create", 0), ("resolve", 0), ("discard", 0)]
    seqs = set()
    ops = [("create", k) for k in range(3)] + [("resolve", k) for k in range(3)] + [("discard", k) for k in range(3)]

    def gen(prefix, left):
        if not left:
            seqs.add(tuple(prefix))
            return
        for k in range(3):
            nxt = next((o for o in left if o[1] == k), None)
            if nxt is not None:
                rest = list(left)
                rest.remove(nxt)
                gen(prefix + [nxt], rest)
    gen([], sorted(ops, key=lambda o: (o[1], ["create", "resolve", "discard"].index(o[0]))))
    seqs = sorted(seqs)
    rnd = random.Random(seed)
    if tier == "quick":
        seqs = rnd.sample(seqs, 400)
    cases = [{"ops": list(s) + [("create", 3), ("resolve", 3), ("resolve", 0), ("discard", 3)]} for s in seqs]
    # histories walked by TLC on Docs.tla (create / resolve / discard / transplant of a reference object between documents)
    nwalk = 600 if tier == "quick" else 3000

    def walks():
        r = tlc.must_ok(tlc.run("Docs", "Docs_sim.cfg", workers=1, timeout=1800,
                                extra=("-simulate", f"num={nwalk}", "-depth", "10", "-seed", str(seed + 41))), "Docs walks")
        seen, out = set(), []
        for h in r.printed:
            k = json.dumps(h)
            if k not in seen:
                seen.add(k)
                out.append(h)
        return {"printed": out}
    wk = tlc.cached(f"docs-{nwalk}-{seed}-{tlc.spec_digest('Docs')}", walks)
    run.coverage.setdefault("tlc_runs", []).append({"run": f"Docs/Docs_sim.cfg -simulate num={nwalk}", "histories": len(wk["printed"])})
    cases += [{"ops": [(o[0], o[1] if not isinstance(o[1], list) else tuple(o[1])) for o in h]} for h in wk["printed"]]
    outs = pmap("harness.impl", "registry_case", cases, chunk=40)
    tlc.WORK.mkdir(exist_ok=True)
    tmp = Path(tempfile.mkdtemp(prefix="reg-", dir=tlc.WORK))
    try:
        lines = [json.dumps({"id": i + 1, "events": o["events"], "results_ok": o["results_ok"]}) for i, o in enumerate(outs)]
        f = tmp / "reg.ndjson"
        f.write_text("\n".join(lines) + "\n")
        r = tlc.must_ok(tlc.run("Registry_Trace", "Registry_Trace.cfg", workers=1, env={"TRACE_FILE": str(f)}, timeout=3600), "Registry_Trace")
        run.add_model(r, "Registry_Trace")
        run.traces += len(lines)
        verdict = {p["id"]: p["bad"] for p in r.printed}
    finally:
        shutil.rmtree(tmp, ignore_errors=True)
    nev = sum(o["n_events"] for o in outs)
    if nev < len(outs) * 5:
        raise tlc.TLCFailure("registry hooks emitted (almost) no events: the history check is vacuous")
    run.coverage["registry_histories"] = len(cases)
    run.coverage["registry_events"] = nev
    for i, (c, o) in enumerate(zip(cases, outs), start=1):
        run.case("registry:" + json.dumps(c["ops"]), nontrivial=True)
        bad = verdict.get(i)
        if bad is None:
            raise tlc.TLCFailure(f"no verdict for registry history {i}")
        if bad:
            run.violation(f"{sorted(bad)[0]}|registry_history", sorted(bad)[0], {"history": c["ops"], "wrong": o["wrong"], "all_clauses": bad})


def run_engine(prop: str, tier: str, seed: int) -> int:
    run = Run(prop, tier, seed)
    if prop == "C10":
        registry_part(run, tier, seed)
    res = tlc.must_ok(tlc.run("MC_Scoping", "MC_Scoping_quick.cfg", workers=16, extra=("-coverage", "1"), timeout=3600), "MC_Scoping")
    run.add_model(res, "MC_Scoping/MC_Scoping_quick.cfg (theorems on every chain <= 3 frames)")
    for v in res.violated:
        run.violation(f"model|{v}", v, {"tlc_tail": res.stdout[-2000:]})
    chains = model_chains(run)
    rnd = random.Random(seed)
    short = [c for c in chains if len(c["ch"]) <= 2]
    long3 = [c for c in chains if len(c["ch"]) == 3]
    if tier == "quick":
        long3 = rnd.sample(long3, 25000)
    elif len(long3) > 150000:
        long3 = rnd.sample(long3, 150000)
    ext = model_chains(run, "MC_Scoping_emit_ext.cfg") if prop == "C10" else []      # inherit (s) a, set values, formals
    # chains closed by a call whose argument is a name resolved at the call site (one frame beyond the others)
    calls = [c for c in ext if c["ch"] and c["ch"][-1].get("argn")]
    ext = [c for c in ext if not (c["ch"] and c["ch"][-1].get("argn"))]
    if tier == "quick" and len(calls) > 12000:
        calls = [c for c in calls if len(c["ch"]) <= 2] + rnd.sample([c for c in calls if len(c["ch"]) > 2], 12000)
    run.coverage["call_site_argument_chains"] = len(calls)
    ext = ext + calls
    rex = tlc.must_ok(tlc.run("MC_Scoping", "MC_Scoping_ext.cfg", workers=8, timeout=3600), "MC_Scoping ext") if prop == "C10" else None
    if rex is not None:
        run.add_model(rex, "MC_Scoping/MC_Scoping_ext.cfg (theorems with inherit-from / formals)")
        for v in rex.violated:
            run.violation(f"model|{v}", v, {})
    cases = []
    for m in short + long3 + ext:
        text, keys, editable = render_chain(m["ch"])
        if prop == "C11" and not editable:
            continue
        cases.append({"id": len(cases) + 1, "text": text, "keys": keys, "edit": editable and prop == "C11", "model": m,
                      "formals": bool(m["ch"]) and m["ch"][0]["kind"] == "formals"})
    obs = pmap("harness.impl", "scope_case", [{"text": c["text"], "keys": c["keys"], "edit": c["edit"], "formals": c["formals"]}
                                               for c in cases], chunk=300)
    SEQ = 10_000_000
    seq_lines: dict = {}
    tlc.WORK.mkdir(exist_ok=True)
    tmp = Path(tempfile.mkdtemp(prefix="scope-", dir=tlc.WORK))
    try:
        lines = []
        for c, o in zip(cases, obs):
            c["o"] = o
            pin = chain_of(c["text"])
            c["pin"] = pin
            if pin is None:
                raise tlc.TLCFailure(f"chain projection failed for generated text {c['text']!r}")
            r = o["resolve"]
            isint = r["res"] == "value" and r.get("text", "").lstrip("-").isdigit()

            def ed(e, newv):
                if not e:
                    return {"present": False, "res": "-", "changed": [], "xref": False, "xint": False}
                if e["res"] != "ok":
                    return {"present": True, "res": e["res"], "changed": [], "xref": False, "xint": False}
                d = diff_chain(pin, chain_of(e["text"]), newv)
                return {"present": True, "res": "ok", **d}
            lines.append(json.dumps({"id": c["id"], "ch": pin["ch"], "name": "a",
                                     "obs": {"res": r["res"], "isint": isint, "v": int(r["text"]) if isint else 0, "mro": r.get("mro", [])},
                                     "edit": ed(o.get("edit"), 99), "assign": ed(o.get("assign"), 98)}))
            # the third step of the recorded history (set x; set @a; set x), judged on the chain the SECOND step left behind
            sq = o.get("seq") or []
            if len(sq) == 3 and sq[0]["res"] == "ok" and sq[1]["res"] == "ok" and "text" in sq[2]:
                pin2 = chain_of(sq[1]["text"])
                if pin2 is not None and pin2["x"] == {"k": "ref", "n": "a"}:
                    e3 = sq[2]
                    d3 = {"present": True, "res": e3["res"], "changed": [], "xref": False, "xint": False} if e3["res"] != "ok" else \
                        {"present": True, "res": "ok", **diff_chain(pin2, chain_of(e3["text"]), 97)}
                    seq_lines[SEQ + c["id"]] = c
                    c["pin2"] = pin2
                    lines.append(json.dumps({"id": SEQ + c["id"], "ch": pin2["ch"], "name": "a",
                                             "obs": {"res": "-", "isint": False, "v": 0, "mro": []},
                                             "edit": d3, "assign": ed(None, 0)}))
        shards = 8
        files = []
        for s in range(shards):
            f = tmp / f"s{s}.ndjson"
            f.write_text("\n".join(lines[s::shards]) + "\n")
            files.append(f)

        def one(f):
            return tlc.must_ok(tlc.run("Scoping_Trace", "Scoping_Trace.cfg", workers=1, env={"TRACE_FILE": str(f)}, timeout=3600), "Scoping_Trace")
        with ThreadPoolExecutor(max_workers=shards) as ex:
            rs = list(ex.map(one, files))
        verdict = {}
        for r in rs:
            run.add_model(r)
            for p in r.printed:
                verdict[p["id"]] = p
        run.traces += len(lines)
    finally:
        shutil.rmtree(tmp, ignore_errors=True)
    fld = "c10" if prop == "C10" else "c11"
    for c in cases:
        v = verdict.get(c["id"])
        if v is None:
            raise tlc.TLCFailure(f"no verdict for case {c['id']}")
        run.case(c["text"], nontrivial=True)
        bad = v[fld]
        if bad:
            cl = sorted(bad)[0]
            run.violation(f"{cl}|{provenance(c, prop)}", cl,
                          {"input": c["text"], "access": c["keys"], "observed": c["o"], "expected": c["model"]["res"], "all_clauses": bad})
    if prop == "C11":
        for sid, c in seq_lines.items():
            v = verdict.get(sid)
            if v is None:
                raise tlc.TLCFailure(f"no verdict for history {sid}")
            if verdict[c["id"]]["c11"]:
                continue        # the first step already deviates (reported above): the rest of that history proves nothing
            # the second step must have done what `set @a' means (C09): the innermost let layer now binds a to 55
            lets = [j for j, f in enumerate(c["pin2"]["ch"], start=1) if f["kind"] == "let"]
            if not lets or not any(b["n"] == "a" and b["k"] == "lit" and b["v"] == 55 for b in c["pin2"]["ch"][lets[-1] - 1]["binds"]):
                continue
            if any(len([b for b in f["binds"] if b["n"] == n]) > 1 for f in c["pin2"]["ch"] for n in ("a", "b")):
                continue        # `set @a' next to `inherit a' (an inherited name is not an editable target): duplicate, nothing prescribed
            run.case("history:" + c["text"], nontrivial=True)
            if v["c11"]:
                cl = sorted(v["c11"])[0]
                ch2 = c["pin2"]["ch"]
                run.violation(f"{cl}|third_step_of(set x; set @a; set x)|let_layers={sum(1 for f in ch2 if f['kind'] == 'let')}"
                              f"|with={any(f['kind'] == 'with' for f in ch2)}|inherit={any(b['k'] == 'inh' for f in ch2 for b in f['binds'])}",
                              cl, {"input": c["text"], "history": ["set x 99", "set @a 55", "set x 97"], "texts": c["o"]["seq"], "all_clauses": v["c11"]})
        run.coverage["three_step_histories"] = len(seq_lines)
    for c in cases[:: max(1, len(cases) // 5)][:5]:
        run.sample({"input": c["text"], "access": c["keys"], "observed": c["o"].get("resolve"), "specified": c["model"]["res"]})
    run.assumptions += ["harness/project.py chain_of() (independent reader of the frames around the reference)",
                        "Nix scoping as stated in Scoping.tla (appendix D of DESIGN.md); exhaustive for chains of <= 2 frames, sampled (quick) / exhaustive (thorough) for 3"]
    return run.finish(rule=("chains = every sequence of <= 3 frames (let / rec set / plain set / with) with the names a, b absent / literal / "
                            "reference / inherited per frame, built by TLC (MC_Scoping), rendered to text and traversed through the real "
                            "mapping API down to the reference; Identifier.value (C10) and set / assignment through it (C11) are judged "
                            "by TLC (Scoping_Trace) with Resolve / DefSite; distinct by text"))
