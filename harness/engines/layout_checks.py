"""Checks C01, C03, C06, C18 on the layout engine."""
from __future__ import annotations

from .. import symptoms, tlc
from ..common import Run
from ..project import has_duplicate_attrs
from . import layout

MODEL_CFG = {"quick": "MC_Fmt_quick.cfg", "thorough": "MC_Fmt_thorough.cfg"}

CLAUSES = {
    "C01": ("c01", "c01_valid", "acc"),
    "C03": ("c03_once", "c03_sides"),
    "C06": ("c06",),
    "C18": ("c18", "c18_indent"),
}


def model_check(run: Run, tier: str) -> None:
    """The bounded model: the operational transducer implies every declarative clause."""
    res = tlc.must_ok(tlc.run("MC_Fmt", MODEL_CFG[tier], workers=8, extra=("-coverage", "1"), timeout=3600), "MC_Fmt")
    run.add_model(res, f"MC_Fmt/{MODEL_CFG[tier]}")
    if res.violated:
        run.violation(f"model|{res.violated[0]}", res.violated[0],
                      {"what": "the specification itself violates its invariant", "tlc_tail": res.stdout[-3000:]})
    for act in ("CopyToken", "NormalizeInt", "ElideEmptyLet", "AddTrailingComma", "CopyComment", "Finish"):
        if res.coverage.get(act, [0, 0])[0] == 0:
            run.notes.append(f"vacuity: action {act} never taken in the bounded model")


def select(prop: str, cases: list[dict]) -> list[dict]:
    if prop == "C03":
        return [c for c in cases if c["cmt"]]
    return cases


def judge_case(prop: str, c: dict, v: dict, run: Run) -> None:
    """Turn TLC's per-case verdict into violations of `prop' (one per case at most)."""
    r = c["r"]
    text = c["text"]
    if "fail" in r:
        f = r["fail"]
        if prop == "C01":
            if c.get("con") in layout.UNSUPPORTED and "ValueError" in f["mro"]:
                return
            run.violation(f"C01_{symptoms.refusal_key(f)}", "C01_NoOutput",
                          {"input": text, "exception": f, "case": c["key"]})
        return
    out = r["out"]
    base = {"input": text, "output": out, "case": c["key"]}
    if prop == "C01":
        if v.get("c01") is False:
            run.violation(symptoms.c01_key(text, out), "C01_TokensPreserved", base)
        elif v.get("out_err"):
            run.violation("C01_invalid_output|" + symptoms.c01_key(text, out), "C01_NoError", base)
        elif not v.get("acc"):
            # tokens agree as sequences but the transducer cannot produce this output; only token-level
            # reasons concern C01 (an illegal trailing comma); comment / spacing reasons belong to C03 / C18
            if v.get("c03_once") and v.get("c03_sides") and v.get("c18"):
                run.violation("C01_stepper|" + symptoms.c01_key(text, out), "C01_Transducer",
                              dict(base, frontier=layout.frontier_detail(c, v)))
    elif prop == "C03":
        if v.get("c03_once") is False:
            run.violation(symptoms.c03_once_key(text, out), "C03_EachOnceInOrder", base)
        elif v.get("c03_sides") is False:
            run.violation(symptoms.c03_sides_key(text, out), "C03_Sides", base)
    elif prop == "C06":
        if v.get("c06_pre") and v.get("c06") is False:
            if "fail2" in r:
                run.violation("C06_second_pass_" + symptoms.refusal_key(r["fail2"]), "C06_Stable",
                              dict(base, exception=r["fail2"]))
            else:
                run.violation(symptoms.c06_key(out, r["out2"]), "C06_Stable", dict(base, output2=r["out2"]))
        elif v.get("c06_pre") and v.get("c06_test") is False:
            from ..project import has_error, has_error_mod_tc
            why = "formals_trailing_comma" if has_error(out) and not has_error_mod_tc(out) else \
                "output_has_syntax_error" if has_error(out) else "flagged_without_error"
            if why == "output_has_syntax_error":      # the same symptom signature as C01's, so that a new cause is a new key
                why += "|" + symptoms.c01_key(text, out)
            run.violation(f"C06_TestRejects|{why}", "C06_TestAccepts", base)
    elif prop == "C18":
        if v.get("c18") is False:
            run.violation(symptoms.c18_key(out, v["c18_at"], v.get("c18_clauses", [])), "C18_Normal",
                          dict(base, clauses=v.get("c18_clauses")))
        elif v.get("c18_indent") is False and not v.get("out_err"):
            ln = v.get("c18_line", {})
            run.violation(symptoms.indent_key(out, ln), "C18_Indent", dict(base, line=ln))


def check(prop: str, tier: str, seed: int) -> int:
    run = Run(prop, tier, seed)
    model_check(run, tier)
    descs = layout.gen_programs(tier, seed, run)
    cases, discards = layout.make_cases(descs, seed)
    cases = select(prop, cases)
    if prop == "C01" or tier == "thorough":
        # the texts the repository's own tests parse (recorded by running the pinned suite with harness/pytest_record.py)
        from . import suite
        texts, _ = suite.record()
        seen = {c["text"] for c in cases}
        n0 = len(cases)
        for t in texts:
            if t not in seen and not layout.has_error(t) and not has_duplicate_attrs(t):
                seen.add(t)
                cases.append({"id": len(cases) + 1, "key": "suite", "con": "suite", "text": t, "cmt": "#" in t or "/*" in t})
        run.coverage["repository_suite_texts"] = len(cases) - n0
    layout.execute(cases)
    verdicts = layout.judge(cases, run, shards=8 if tier == "quick" else 14)
    for c in cases:
        v = verdicts.get(c["id"], {})
        if "out" in c["r"]:
            v["out_err"] = layout.has_error_mod_tc(c["r"]["out"])
        nontrivial = ("out" in c["r"] and c["r"]["out"] != c["text"]) or "fail" in c["r"]
        run.case(c["text"], nontrivial)
        judge_case(prop, c, v, run)
    if prop == "C06":
        # "the same holds for the text emitted by any successful set or rm": the edit engine's steps carry the clause
        from . import edit
        hists = edit.model_histories(tier, seed, run)
        if tier == "quick":
            hists = [h for h in hists if len(h["steps"]) == 1]
        ecases, _ = edit.make_cases(hists, tier, seed)
        edit.execute(ecases)
        everd = edit.judge(ecases, run)
        n_edit = 0
        for c in ecases:
            for k, e in enumerate(c.get("events", [])):
                bad = everd.get((c["id"], k + 1)) or []
                if e["res"] == "ok":
                    n_edit += 1
                    run.case("edit:" + c["text"] + "|" + c["ops"][k]["npath"] + "|" + c["ops"][k]["vtext"], nontrivial=True)
                if "C06_EditStable" in bad:
                    st = c["r"]["steps"][k]
                    run.violation("C06_edit|" + symptoms.c06_key(st.get("ret", ""), st.get("reparsed", "")).split("|", 1)[1]
                                  + f"|{c['ops'][k]['f']}"
                                  + ("|value_with_comment" if "comment" in c["ops"][k].get("vform", "") or
                                     c["ops"][k].get("vform", "") in ("lead_block", "lead_line", "trail_block") else "")
                                  + ("|loose_layout" if c.get("loose") else ""), "C06_EditStable",
                                  {"input": c["text"], "ops": [f"{o['f']} {o['npath']} {o['vtext']}" for o in c["ops"][:k + 1]],
                                   "output": st.get("ret"), "output2": st.get("reparsed")})
                if bad:
                    break
        run.coverage["edit_outputs_checked"] = n_edit
    if prop == "C18":
        # the text an edited document rebuilds to is rebuilt text as well (reading adopted in DESIGN.md appendix E)
        from . import edit
        hists = [h for h in edit.model_histories(tier, seed, run) if len(h["steps"]) == 1 and h["steps"][0]["res"] == "ok"
                 and not h["steps"][0]["op"].get("bad")]
        ecases, _ = edit.make_cases(hists, tier, seed)
        edit.execute(ecases)
        outs, seen_out = [], set()
        for c in ecases:
            st = (c["r"].get("steps") or [{}])[0]
            t = st.get("ret")
            if st.get("res") == "ok" and isinstance(t, str) and t not in seen_out and not layout.has_error_mod_tc(t):
                seen_out.add(t)
                outs.append({"id": len(outs) + 1, "text": t, "case": c})
        nverd = layout.judge_norm([{"id": o["id"], "text": o["text"]} for o in outs], run)
        for o in outs:
            v = nverd.get(o["id"])
            if v is None:
                raise tlc.TLCFailure(f"no verdict for edit output {o['id']}")
            c = o["case"]
            run.case("edit-output:" + o["text"], nontrivial=True)
            tag = f"|edit:{c['ops'][0]['f']}" + ("|loose_layout" if c.get("loose") else "") + \
                ("|value_with_comment" if c["ops"][0].get("vform", "") in ("eol_comment", "lead_block", "lead_line", "trail_block") else "")
            det = {"input": c["text"], "ops": [f"{x['f']} {x['npath']} {x['vtext']}" for x in c["ops"]], "output": o["text"]}
            if v.get("c18") is False:
                run.violation(symptoms.c18_key(o["text"], v["c18_at"], v.get("c18_clauses", [])) + tag, "C18_Normal", dict(det, clauses=v.get("c18_clauses")))
            elif v.get("c18_indent") is False:
                run.violation(symptoms.indent_key(o["text"], v.get("c18_line", {})) + tag, "C18_Indent", dict(det, line=v.get("c18_line")))
        run.coverage["edit_outputs_checked"] = len(outs)
    for c in cases[:: max(1, len(cases) // 5)][:5]:
        run.sample({"case": c["key"], "input": c["text"], "output": c["r"].get("out"), "raised": c["r"].get("fail")})
    run.assumptions += [
        "tree-sitter-nix 0.1.0 defines 'parses without error' and the token/comment/gap segmentation",
        "exhaustive only within the construct/slot/filler/context product of Gen.tla for this tier",
    ]
    return run.finish(
        rule=("programs = Gen.tla descriptors (construct x gap slot x filler x context, plus ambient layouts "
              "and file lead/trail) rendered to text; a case is distinct by its text and non-trivial when the "
              "rebuilt text differs from the input or the call raised; each is executed by the real "
              "parse/rebuild and judged by TLC (Fmt_Trace.tla)"),
        extra={"generator_discards": discards, "programs": len(cases)})
