"""C15: purity, determinism, threads.  Proc.tla schedules replayed with real threads; free-running threads, order /
hash-seed / cwd independence; all judged by TLC (Proc_Trace.tla)."""
from __future__ import annotations

import hashlib
import json
import os
import random
import shutil
import subprocess
import sys
import tempfile
from pathlib import Path

from .. import tlc
from ..common import REPO, Run
from ..concretize import render_doc, render_gen
from ..pool import pmap
from ..project import has_error

JOB_TEXTS = [
    ("roundtrip", "{ a = 1; }"),
    ("roundtrip", "{\n  a = [ 1 2 ]; # c\n  b = \"s\";\n}\n"),
    ("resolve", "let v = 3; in { x = v; a = 1; }"),
    ("edit", "{ a = 1; b = { c = 2; }; }"),
    ("parse_file", "{ p = ./x.nix; a = 1; }\n"),
    ("roundtrip", "x:\n# c\n{ a = x; }\n"),
]


def corpus(tier: str, seed: int) -> list[str]:
    from . import layout
    from .edit import model_histories
    descs = layout.gen_programs("quick", seed)
    rnd = random.Random(seed)
    rnd.shuffle(descs)
    texts = []
    for d in descs:
        t = render_gen(d, seed)
        if not has_error(t):
            texts.append(t)
    seen = set()
    for h in model_histories("quick", 0, Run("_", "quick", 0)):
        k = json.dumps(h["seed"], sort_keys=True)
        if k not in seen:
            seen.add(k)
            texts.append(render_doc(h["seed"]))
    return texts


def intern_events(events: list[dict]) -> list[dict]:
    ids: dict = {}
    out = []
    for e in events:
        out.append({"t": e["t"], "ev": e["ev"], "ident": ids.setdefault(e["ident"], len(ids) + 1)})
    return out


SUB = r"""
import sys, os, hashlib, json
sys.path.insert(0, sys.argv[1])
from nix_manipulator.parser import parse
texts = json.load(open(sys.argv[2]))
h = hashlib.sha256()
for t in texts:
    try:
        h.update(parse(t).rebuild().encode())
    except Exception as e:
        h.update(("!" + type(e).__name__).encode())
    h.update(b"\0")
print(h.hexdigest())
"""


def check(tier: str, seed: int) -> int:
    run = Run("C15", tier, seed)
    # model: design holds, both mutant designs are refuted
    ok = tlc.must_ok(tlc.run("Proc", "Proc_ok.cfg", workers=4, extra=("-coverage", "1")), "Proc")
    run.add_model(ok, "Proc/Proc_ok.cfg (2 threads, all interleavings)")
    for v in ok.violated:
        run.violation(f"model|{v}", v, {"tlc_tail": ok.stdout[-1500:]})
    schedules = [p["sched"] for p in ok.printed]
    for cfg, inv in (("Proc_mut_bytes.cfg", "C15_Isolation"), ("Proc_mut_parser.cfg", "C15_ParserExclusive")):
        m = tlc.run("Proc", cfg, workers=2)
        run.coverage[f"spec_mutant_{cfg}_refuted"] = inv in m.violated
        if inv not in m.violated:
            run.notes.append(f"vacuity: mutant design {cfg} not refuted")
    if tier == "thorough":
        ok3 = tlc.must_ok(tlc.run("Proc", "Proc_ok3.cfg", workers=16, timeout=3600), "Proc 3 threads")
        run.add_model(ok3, "Proc/Proc_ok3.cfg (3 threads)")
        for v in ok3.violated:
            run.violation(f"model|{v}", v, {})
    rnd = random.Random(seed)
    # (ii) schedule replay with real threads
    scases = []
    for s in schedules:
        a, b = rnd.sample(JOB_TEXTS, 2)
        scases.append({"jobs": [{"kind": a[0], "text": a[1]}, {"kind": b[0], "text": b[1]}], "sched": s})
    if tier == "thorough":
        for _ in range(3000):
            js = rnd.sample(JOB_TEXTS, 3)
            scases.append({"jobs": [{"kind": k, "text": t} for k, t in js], "sched": [rnd.randint(1, 3) for _ in range(24)]})
    souts = pmap("harness.impl", "sched_case", scases, chunk=30)
    # (B) free-running threads
    texts = corpus(tier, seed)
    fouts = pmap("harness.impl", "free_threads_case", [{"texts": texts[i::4][:400], "threads": 8} for i in range(4)], chunk=1)
    # (i) purity
    pouts = pmap("harness.impl", "purity_case", texts, chunk=300)
    # (i-b) purity of documents BUILT through the API from the values of MC_Values (lists, dicts, lists holding sets)
    from . import values as _values
    seen_v, bcases = set(), []
    for m in _values.model_values("quick")["printed"]:
        if m["v"]["t"] not in ("list", "dict"):
            continue
        k = json.dumps(m["v"], sort_keys=True)
        if k in seen_v:
            continue
        seen_v.add(k)
        for shape in ("item_assign", "with_body", "nested"):
            bcases.append({"pv": _values.to_py(m["v"]), "shape": shape})
    bouts = pmap("harness.impl", "built_purity_case", bcases, chunk=200)
    # (iv) order independence in one process
    ocases = []
    for k in range(8 if tier == "quick" else 40):
        sub = rnd.sample(texts, 150) + [t for _, t in JOB_TEXTS[:4]]
        kinds = ["roundtrip"] * 150 + [k_ for k_, _ in JOB_TEXTS[:4]]
        order = list(range(len(sub)))
        ob = order[:]
        rnd.shuffle(ob)
        ocases.append({"texts": sub, "kinds": kinds, "order_a": order, "order_b": ob})
    oouts = pmap("harness.impl", "order_case", ocases, chunk=1)
    # (iii) hash seed / working directory: fresh processes
    tlc.WORK.mkdir(exist_ok=True)
    tmp = Path(tempfile.mkdtemp(prefix="proc-", dir=tlc.WORK))
    try:
        cf = tmp / "corpus.json"
        cf.write_text(json.dumps(texts[:1500]))
        digests = {}
        for hs in ("0", "1", "4242"):
            for cwd in ("/", str(tmp)):
                env = dict(os.environ, PYTHONHASHSEED=hs, NIMA_VERIF="1")
                p = subprocess.run([sys.executable, "-c", SUB, str(REPO), str(cf)], cwd=cwd, env=env, capture_output=True, text=True, timeout=600)
                digests[f"hashseed={hs},cwd={'root' if cwd == '/' else 'scratch'}"] = p.stdout.strip() or ("ERR:" + p.stderr[-200:])
        lines = []
        cid = 0
        meta = []
        for c, o in zip(scases, souts):
            cid += 1
            meta.append(("schedule", c, o))
            lines.append(json.dumps({"id": cid, "events": intern_events(o["events"]),
                                     "same_as_serial": o["serial"] == o["threaded"] and not o["stuck"]}))
        for o in fouts:
            cid += 1
            meta.append(("free_threads", None, o))
            lines.append(json.dumps({"id": cid, "events": intern_events(o["events"]), "same_as_serial": o["same"]}))
        for t, o in zip(texts, pouts):
            cid += 1
            meta.append(("purity", t, o))
            lines.append(json.dumps({"id": cid, "events": [], "same_as_serial": o["same_text"] and o["same_snap"]}))
        for c, o in zip(bcases, bouts):
            cid += 1
            meta.append(("built", c, o))
            lines.append(json.dumps({"id": cid, "events": [], "same_as_serial": o["same_text"] and o["same_snap"]}))
        for c, o in zip(ocases, oouts):
            cid += 1
            meta.append(("order", c, o))
            lines.append(json.dumps({"id": cid, "events": [], "same_as_serial": o["same"]}))
        cid += 1
        meta.append(("process_config", None, digests))
        lines.append(json.dumps({"id": cid, "events": [], "same_as_serial": len(set(digests.values())) == 1}))
        f = tmp / "proc.ndjson"
        f.write_text("\n".join(lines) + "\n")
        r = tlc.must_ok(tlc.run("Proc_Trace", "Proc_Trace.cfg", workers=1, env={"TRACE_FILE": str(f)}, timeout=3600), "Proc_Trace")
        run.add_model(r, "Proc_Trace")
        run.traces += len(lines)
        verdict = {p["id"]: p["bad"] for p in r.printed}
    finally:
        shutil.rmtree(tmp, ignore_errors=True)
    hooks_on = all(o.get("hooks_on") for o in souts)
    if not hooks_on:
        raise tlc.TLCFailure("hooks were not enabled in the workers (guard NIMA_VERIF)")
    nev = sum(len(o["events"]) for o in souts)
    if nev < len(souts) * 6:
        raise tlc.TLCFailure("the hooks emitted (almost) no events: schedule replay is vacuous")
    for i, (kind, c, o) in enumerate(meta, start=1):
        bad = verdict.get(i)
        if bad is None:
            raise tlc.TLCFailure(f"no verdict for case {i}")
        sig = kind + ":" + (json.dumps(c)[:400] if kind in ("schedule",) else str(i))
        run.case(sig if kind != "purity" else "purity:" + c, nontrivial=True)
        if kind == "built" and o["res"] != "ok":
            continue        # a value the API refuses in that position: nothing was built
        if bad:
            cl = sorted(bad)[0]
            if kind == "schedule":
                key = f"{cl}|schedule|jobs={'+'.join(sorted(j['kind'] for j in c['jobs']))}"
                det = {"jobs": c["jobs"], "schedule": c["sched"], "serial": o["serial"], "threaded": o["threaded"], "stuck": o["stuck"]}
            elif kind == "free_threads":
                key, det = f"{cl}|free_threads", {"mismatch": o.get("mismatch"), "events": o["n_events"]}
            elif kind == "purity":
                key, det = f"C15_Pure|text={o['same_text']}|snapshot={o['same_snap']}", {"input": c, "observed": o}
                cl = "C15_Pure"
            elif kind == "built":
                key, det = f"C15_Pure|built:{c['shape']}|text={o['same_text']}|snapshot={o['same_snap']}", {"value": c["pv"], "shape": c["shape"], "observed": o}
                cl = "C15_Pure"
            elif kind == "order":
                key, det = "C15_OrderIndependent", {"first_difference": o.get("detail")}
                cl = "C15_OrderIndependent"
            else:
                key, det = "C15_ProcessConfigIndependent", {"digests": o}
                cl = "C15_ProcessConfigIndependent"
            run.violation(key, cl, det)
    run.coverage.update({"schedules_replayed": len(scases), "hook_events_in_schedules": nev,
                         "free_thread_events": sum(o["n_events"] for o in fouts), "purity_cases": len(texts), "built_document_purity_cases": len(bcases),
                         "order_cases": len(ocases), "process_configurations": digests})
    run.sample({"schedule": scases[0]["sched"], "jobs": scases[0]["jobs"], "threaded": souts[0]["threaded"]})
    run.sample({"free_threads": {"events": fouts[0]["n_events"], "same_as_serial": fouts[0]["same"]}})
    run.sample({"process_configurations": digests})
    run.assumptions += ["interleavings are explored at the granularity of the hooked accesses to process-wide state; CPython's GIL is assumed "
                        "for everything between two hook points", "real schedules follow the TLC schedule as a priority order: a thread with more "
                        "yield points than the model keeps running round-robin after the schedule is exhausted"]
    return run.finish(rule=("(i) snapshot / text equality around two rebuilds of every corpus document; (ii) all 924 interleavings of 2 threads "
                            "over the hook points (Proc.tla) replayed with real threads by the cooperative scheduler, results compared with the "
                            "serial run and the recorded hook events validated by TLC (Proc_Trace: every gap read sees the reader's own bytes, "
                            "parsers exclusive); (B) 8 free-running threads validated the same way; (iii) 6 fresh processes (3 hash seeds x 2 "
                            "working directories) by digest; (iv) shuffled processing order in one process"))
