"""Checks C04, C05, C08, C09 on the edit engine."""
from __future__ import annotations

from .. import tlc
from ..common import Run
from . import edit

PREFIX = {"C04": ("C04_",), "C05": ("C05_",), "C08": ("C08_",), "C09": ("C09_", "C05_Valid", "C05_Shape")}
MODEL_CFG = {"quick": "Edit_quick.cfg", "thorough": "Edit_thorough.cfg"}


def model_check(run: Run, tier: str) -> None:
    res = tlc.must_ok(tlc.run("Edit", MODEL_CFG[tier], workers=16, extra=("-coverage", "1"), timeout=7200), "Edit model")
    run.add_model(res, f"Edit/{MODEL_CFG[tier]}")
    for v in res.violated:
        run.violation(f"model|{v}", v, {"what": "the reference semantics violate the property on the bounded model",
                                        "tlc_tail": res.stdout[-3000:]})
    for act in ("Set", "Rm", "Reject"):
        if res.coverage.get(act, [0, 0])[0] == 0:
            run.notes.append(f"vacuity: action {act} never taken in the bounded model")


def relevant(prop: str, clause: str, op: dict) -> bool:
    if prop == "C09":
        # "deeper selectors fail when the layer does not exist" is C09's own wording
        # "@name reads and WRITES the innermost let": the effect of a scoped edit on its own layer is C09's business as well
        return clause.startswith("C09_") or clause == "C08_Loud:no_layer" or \
            (op["sel"] > 0 and clause in ("C05_Valid", "C05_Shape", "C05_Effect"))
    return clause.startswith(PREFIX[prop])


def check(prop: str, tier: str, seed: int) -> int:
    run = Run(prop, tier, seed)
    model_check(run, tier)
    hists = edit.model_histories(tier, seed, run)
    if prop == "C09":
        hists = [h for h in hists if any(st["op"]["sel"] > 0 for st in h["steps"])]
    if prop != "C08":       # a malformed request on its own (one-step history) is C08's business only
        hists = [h for h in hists if not (len(h["steps"]) == 1 and h["steps"][0]["op"].get("bad"))]
    cases, discards = edit.make_cases(hists, tier, seed)
    if tier == "thorough" and prop != "C09":
        sc = edit.suite_cases(len(cases) + 1)       # the edits the repository's own tests perform, judged like any other step
        run.coverage["repository_suite_edit_calls"] = len(sc)
        cases += sc
    edit.execute(cases)
    verdicts = edit.judge(cases, run)
    for c in cases:
        r = c["r"]
        if "fail" in r:
            run.violation(f"parse_failed|{r['fail']['exc']}|wrap={'+'.join(c['wrap']) or '-'}", "SeedParses",
                          {"input": c["text"], "exception": r["fail"]})
            continue
        for k, e in enumerate(c.get("events", [])):
            bad = verdicts.get((c["id"], k + 1))
            sig = f"{c['text']}|{[o['npath'] + ' ' + o['vtext'] for o in c['ops'][:k + 1]]}"
            run.case(sig, nontrivial=True)
            if bad is None:
                raise tlc.TLCFailure(f"no verdict for history {c['id']} step {k + 1}")
            mine = [b for b in bad if relevant(prop, b, c["ops"][k])]
            if bad and not mine:
                break        # the history diverged from the specification (another property's clause): stop judging it
            if mine:
                run.violation(edit.step_key(mine[0], c, k), mine[0],
                              {"input": c["text"],
                               "ops": [f"{o['f']} {o['npath']} {o['vtext'] if o['f'] == 'set' else ''}".strip() for o in c["ops"][:k + 1]],
                               "result": r["steps"][k]["res"], "exception": r["steps"][k].get("exc"),
                               "output": r["steps"][k].get("cur"), "before": r["steps"][k - 1]["cur"] if k else r["text0"],
                               "all_clauses": bad})
                break        # later steps of a diverged history are not judged
    for c in cases[:: max(1, len(cases) // 5)][:5]:
        run.sample({"input": c["text"], "ops": [f"{o['f']} {o['npath']} {o.get('vtext', '')}" for o in c["ops"]],
                    "results": [s["res"] for s in c["r"].get("steps", [])],
                    "final": (c["r"].get("steps") or [{}])[-1].get("cur")})
    run.assumptions += [
        "harness/project.py doc() (independent CST reader) and harness/concretize.py render_doc() (canonical printer)",
        "reference semantics of Doc.tla (DESIGN.md appendix C); lenient readings of appendix E",
        "exhaustive over all depth-1 transitions of the Edit.tla seed product; longer histories are random walks (-simulate)",
    ]
    return run.finish(
        rule=("histories = every depth-1 transition of Edit.tla plus -simulate walks (<= 6 ops), each rendered under "
              "several wrapper shapes and replayed on ONE in-memory document by the real set_value/remove_value; "
              "every step (op, result class, projected state, byte region, snapshot equality) is judged by TLC "
              "(Edit_Trace.tla); a step is distinct by (seed text, operation prefix)"),
        extra={"generator_discards": discards, "histories": len(cases)})
