"""Trace recording of the repository's own test-suite (run with the guard on and harness/pytest_record.py)."""
from __future__ import annotations

import json
import os
import shutil
import subprocess
import tempfile
from pathlib import Path

from .. import tlc
from ..common import GUARD, REPO, VERIF


def record() -> tuple[list[str], list[dict]]:
    """Run the pinned suite once with recording; returns (texts parsed by the tests, edit calls)."""
    tlc.WORK.mkdir(exist_ok=True)
    d = Path(tempfile.mkdtemp(prefix="suite-", dir=tlc.WORK))
    try:
        env = dict(os.environ, NIMA_RECORD_DIR=str(d), PYTHONPATH=f"{VERIF}:{REPO}", PYTHONDONTWRITEBYTECODE="1")
        env[GUARD] = "1"
        subprocess.run(["/venv/bin/python", "-m", "pytest", "-q", "-p", "no:cacheprovider", "-p", "harness.pytest_record",
                        "--timeout=900", "--continue-on-collection-errors", "-n", "8", "-x", "--co", "-q"],
                       cwd=REPO, env=env, capture_output=True, text=True, timeout=600)
        p = subprocess.run(["/venv/bin/python", "-m", "pytest", "-q", "-p", "no:cacheprovider", "-p", "harness.pytest_record",
                            "--timeout=900", "--continue-on-collection-errors", "-n", "8"],
                           cwd=REPO, env=env, capture_output=True, text=True, timeout=1800)
        texts, edits, seen = [], [], set()
        for f in sorted(d.glob("rec-*.ndjson")):
            for line in f.read_text(encoding="utf-8").splitlines():
                try:
                    r = json.loads(line)
                except Exception:  # noqa: BLE001
                    continue
                if r["ev"] == "parse":
                    if r["text"] not in seen:
                        seen.add(r["text"])
                        texts.append(r["text"])
                else:
                    edits.append(r)
        if not texts:
            raise tlc.TLCFailure("recording the repository's test-suite produced no parse events:\n" + p.stdout[-1500:] + p.stderr[-1500:])
        return texts, edits
    finally:
        shutil.rmtree(d, ignore_errors=True)
