"""C12: NixText.tla cases -> real set / set / rm with the path text -> NixText_Trace.tla."""
from __future__ import annotations

import json
import shutil
import tempfile
from concurrent.futures import ThreadPoolExecutor
from pathlib import Path

from .. import tlc
from ..common import Run
from ..pool import pmap

U = "é"


def chars(s: str | None) -> list[str]:
    return [("U" if c == U else c) for c in (s or "")]


def model_cases(tier: str, run: Run) -> list[dict]:
    cfg = f"MC_NixText_emit_{tier}.cfg"
    dig = tlc.spec_digest("NixText")

    def produce():
        res = tlc.must_ok(tlc.run("MC_NixText", cfg, workers=1, timeout=7200, heap="8g"), "MC_NixText emit")
        return {"printed": res.printed, "generated": res.generated, "distinct": res.distinct}
    d = tlc.cached(f"nixtext-{cfg}-{dig}", produce)
    run.states += d["distinct"]
    run.transitions += d["generated"]
    run.coverage.setdefault("tlc_runs", []).append({"run": f"MC_NixText/{cfg} (emission)", "distinct_states": d["distinct"],
                                                    "states_generated": d["generated"], "cases": len(d["printed"])})
    return d["printed"]


KEYWORDS = {"if", "then", "else", "assert", "with", "let", "in", "rec", "inherit"}


def is_nix_bare(name: str) -> bool:
    import re
    return bool(re.match(r"^[A-Za-z_][A-Za-z0-9_'-]*$", name))


def make_cases(model: list[dict]) -> list[dict]:
    from ..concretize import quote_name
    cases, seen = [], set()
    for m in model:
        text = "".join(m["text"]).replace("U", U)
        if text in seen or text.startswith("@"):
            continue
        seen.add(text)
        c = {"id": len(cases) + 1, "text": text, "kind": m["kind"], "model_err": m["err"]}
        if m["kind"] == "names" and len(m["names"]) == 1:
            name = "".join(m["names"][0]).replace("U", U)
            # the same name spelled the OTHER way in the file: bare in the file / quoted in the path, and vice versa
            if is_nix_bare(name):
                quoted_path = text.startswith('"')
                c["alt_file"] = ("{ " + name + " = 1; }\n") if quoted_path else ('{ "' + name + '" = 1; }\n')
        cases.append(c)
    return cases


def check(tier: str, seed: int) -> int:
    run = Run("C12", tier, seed)
    res = tlc.must_ok(tlc.run("MC_NixText", f"MC_NixText_{tier}.cfg", workers=8, extra=("-coverage", "1"), timeout=7200), "MC_NixText")
    run.add_model(res, f"MC_NixText/MC_NixText_{tier}.cfg")
    for v in res.violated:
        run.violation(f"model|{v}", v, {"tlc_tail": res.stdout[-2000:]})
    cases = make_cases(model_cases(tier, run))
    results = pmap("harness.impl", "npath_case", [{"text": c["text"], "alt_file": c.get("alt_file")} for c in cases], chunk=400)
    tlc.WORK.mkdir(exist_ok=True)
    tmp = Path(tempfile.mkdtemp(prefix="nt-", dir=tlc.WORK))
    try:
        lines = []
        for c, r in zip(cases, results):
            c["r"] = r
            lines.append(json.dumps({
                "id": c["id"], "text": chars(c["text"]), "res": r["res"],
                "raw": [chars(x) for x in (r.get("raw") or [])],
                "res2": r.get("res2", "-"), "raw2": [chars(x) for x in (r.get("raw2") or [])],
                "n2": r.get("n2", 0), "v2ok": r.get("leaf2") == "2",
                "res3": r.get("res3", "-"), "gone3": bool(r.get("gone3")),
                "alt": "alt_file" in c, "altres": r.get("altres", "-"), "altdefs": r.get("altdefs", 0)}, ensure_ascii=False))
        shards = 8
        files = []
        for s in range(shards):
            f = tmp / f"s{s}.ndjson"
            f.write_text("\n".join(lines[s::shards]) + "\n")
            files.append(f)

        def one(f):
            return tlc.must_ok(tlc.run("NixText_Trace", "NixText_Trace.cfg", workers=1, env={"TRACE_FILE": str(f)}, timeout=3600), "NixText_Trace")
        with ThreadPoolExecutor(max_workers=shards) as ex:
            rs = list(ex.map(one, files))
        verdict = {}
        for r in rs:
            run.add_model(r)
            for p in r.printed:
                verdict[p["id"]] = p["bad"]
        run.traces += len(lines)
    finally:
        shutil.rmtree(tmp, ignore_errors=True)
    for c in cases:
        bad = verdict.get(c["id"])
        if bad is None:
            raise tlc.TLCFailure(f"no verdict for case {c['id']}")
        run.case(c["text"], nontrivial=True)
        # a written name that is a reserved word makes the text unreadable: the follow-up clauses are consequences
        if "C12_Written" in bad and c["r"].get("raw") is None and c["r"].get("res") == "ok":
            bad = ["C12_Written"]
        for cl in sorted(bad):          # every violated clause is reported (a known one must not hide a new one)
            # signature: clause + the character classes involved (quotes / backslash / ${ / dash / dot ...)
            special = "".join(sorted({ch for ch in c["text"] if not ch.isalnum() and ch not in "_"}))
            if c["text"].strip('"') in KEYWORDS or any(seg in KEYWORDS for seg in c["text"].split(".")):
                special += "|keyword"
            run.violation(f"{cl}|chars={special!r}|res={c['r']['res']}" if not cl.startswith("C12_OneAttribute_alt") else
                          f"{cl}|{'quoted_path_bare_file' if c['text'].startswith(chr(34)) else 'bare_path_quoted_file'}"
                          f"|dash={'-' in c['text']}",
                          cl, {"path": c["text"], "results": c["r"], "alt_file": c.get("alt_file"), "all_clauses": bad})
    for c in cases[:: max(1, len(cases) // 5)][:5]:
        run.sample({"path": c["text"], "kind": c["kind"], "observed": {k: c["r"].get(k) for k in ("res", "t1", "res2", "res3")}})
    run.assumptions += ["NixDecode of NixText.tla is the definition of 'what Nix reads' for an attribute token (no Nix evaluator offline)",
                        "exhaustive for all names / path texts over 16 character classes up to the tier's length bound"]
    return run.finish(rule=("every name (as a 1- or 2-segment path) and every path text over 16 character classes up to the length "
                            "bound, enumerated by TLC (MC_NixText); each is used for set on `{ }', set again, rm, and set on a file "
                            "that spells the same name the other way; TLC (NixText_Trace) tokenizes the path text, decodes the "
                            "attribute tokens the code wrote and judges the clauses; distinct by path text"))
