"""C19: law instances (from Edit.tla transitions) executed by the real code, judged by Laws_Trace.tla."""
from __future__ import annotations

import json
import random
import shutil
import tempfile
from pathlib import Path

from .. import tlc
from ..common import Run
from ..concretize import _val, render_doc
from ..pool import pmap
from ..project import doc, has_error
from . import edit


def op_rec(o: dict) -> dict:
    return {"f": o["f"], "sel": o["sel"], "path": o["path"], "v": o["v"], "npath": edit.npath(o["sel"], o["path"]),
            "vtext": _val(o["v"], 0)}


def leaf_at(items: list, path: list[str]):
    for x in items:
        if x["k"] == "b" and x["ap"] == path:
            return x["val"]
        if x["k"] == "b" and len(x["ap"]) < len(path) and path[:len(x["ap"])] == x["ap"] and x["val"]["k"] == "set":
            return leaf_at(x["val"]["items"], path[len(x["ap"]):])
    return None


def check(tier: str, seed: int) -> int:
    run = Run("C19", tier, seed)
    res = tlc.must_ok(tlc.run("Edit", "Edit_quick.cfg" if tier == "quick" else "Edit_thorough.cfg", workers=16,
                              extra=("-coverage", "1"), timeout=7200), "Edit model (C19 invariants)")
    run.add_model(res, "Edit (C19_Idempotent, C19_SetRm, C19_Commute as invariants)")
    for v in res.violated:
        run.violation(f"model|{v}", v, {"tlc_tail": res.stdout[-2000:]})
    hists = [h for h in edit.model_histories(tier, seed, Run("_", tier, seed)) if len(h["steps"]) == 1]
    rnd = random.Random(seed)
    by_seed: dict = {}
    for h in hists:
        by_seed.setdefault(json.dumps(h["seed"], sort_keys=True), []).append(h)
    inst = []          # (law, seed doc, ops A, ops B)
    for key, hs in by_seed.items():
        d0 = hs[0]["seed"]
        oks = [h["steps"][0] for h in hs if h["steps"][0]["res"] == "ok"]
        sets = [s for s in oks if s["op"]["f"] == "set"]
        for s in sets:
            o = op_rec(s["op"])
            inst.append(("idempotent", d0, [o], [o, o]))
            I = d0["body"]["items"] if o["sel"] == 0 else (d0["layers"][len(d0["layers"]) - o["sel"]] if 0 < o["sel"] <= len(d0["layers"]) else [])
            pc = edit.path_class(I, o["path"]) if I is not None else "nolayer"
            if len(o["path"]) == 1 and pc.startswith("fresh"):
                inst.append(("set_rm", d0, [], [o, dict(o, f="rm", npath=o["npath"])]))
        for s in [x for x in oks if x["op"]["f"] == "rm"]:
            o = op_rec(s["op"])
            I = d0["body"]["items"] if o["sel"] == 0 else d0["layers"][len(d0["layers"]) - o["sel"]]
            v = leaf_at(I, o["path"])
            prunes_layer = o["sel"] > 0 and len(I) == 1          # rm empties the layer: `set' then addresses another layer
            if v is not None and v["k"] in ("int", "opq") and not prunes_layer:
                inst.append(("rm_set", d0, [], [o, dict(o, f="set", v=v, vtext=_val(v, 0))]))
        ex = [op_rec(s["op"]) for s in sets if s["op"]["v"] == {"k": "int", "v": 7}
              and edit.path_class(d0["body"]["items"] if s["op"]["sel"] == 0 else
                                  (d0["layers"][len(d0["layers"]) - s["op"]["sel"]] if 0 < s["op"]["sel"] <= len(d0["layers"]) else []),
                                  s["op"]["path"]).split(">")[-1] in ("leaf", "attrpath_leaf")]     # not references: those alias another binding (C11)
        pairs = [(a, b) for i, a in enumerate(ex) for b in ex[i + 1:]
                 if a["sel"] != b["sel"] or (a["path"][:len(b["path"])] != b["path"] and b["path"][:len(a["path"])] != a["path"])]
        for a, b in pairs:
            b2 = dict(b, v={"k": "int", "v": 8}, vtext="8")
            inst.append(("commute", d0, [a, b2], [b2, a]))
    if tier == "quick" and len(inst) > 9000:
        keep = [i for i in inst if i[0] != "idempotent"]
        idem = [i for i in inst if i[0] == "idempotent"]
        rnd.shuffle(idem)
        inst = keep[:6000] + idem[:3000]
    jobs, meta = [], []
    for law, d0, A, B in inst:
        ws = [rnd.choice(edit.WRAPS)] if law == "idempotent" else [[], rnd.choice(edit.WRAPS[1:])]
        for w in ws:
            if w and w[-1] == "call" and d0["layers"]:
                w = []
            texts = [render_doc(dict(d0, wrap=w))]
            if not w and len(d0["layers"]) >= 2 and any(o["sel"] > 0 for o in A + B):
                texts.append(render_doc(dict(d0, wrap=w), in_comments=True))      # layer trivia: a comment after every `in'
            for text in texts:
                if has_error(text):
                    continue
                meta.append({"law": law, "text": text, "A": A, "B": B})
                jobs.append({"text": text, "ops": A})
                jobs.append({"text": text, "ops": B})
    outs = pmap("harness.impl", "run_history", jobs, chunk=150)
    tlc.WORK.mkdir(exist_ok=True)
    tmp = Path(tempfile.mkdtemp(prefix="laws-", dir=tlc.WORK))
    try:
        lines = []
        for i, m in enumerate(meta):
            ra, rb = outs[2 * i], outs[2 * i + 1]
            m["ra"], m["rb"] = ra, rb
            ok = "fail" not in ra and "fail" not in rb and all(s["res"] == "ok" and "cur" in s for s in ra["steps"] + rb["steps"]) \
                and len(ra["steps"]) == len(m["A"]) and len(rb["steps"]) == len(m["B"])
            t0 = ra.get("text0", "")
            ta = ra["steps"][-1]["cur"] if ok and ra["steps"] else t0
            tb = rb["steps"][-1]["cur"] if ok and rb["steps"] else t0
            m.update(ok=ok, t0=t0, ta=ta, tb=tb)
            lines.append(json.dumps({"id": i + 1, "law": m["law"], "canon": t0 == m["text"], "ok": ok, "t0": t0, "ta": ta, "tb": tb,
                                     "d0": doc(t0) if m["law"] == "rm_set" else {}, "db": doc(tb) if m["law"] == "rm_set" else {}},
                                    ensure_ascii=False))
        f = tmp / "laws.ndjson"
        f.write_text("\n".join(lines) + "\n")
        r = tlc.must_ok(tlc.run("Laws_Trace", "Laws_Trace.cfg", workers=1, env={"TRACE_FILE": str(f)}, timeout=3600), "Laws_Trace")
        run.add_model(r, "Laws_Trace")
        run.traces += len(lines)
        verdict = {p["id"]: p["bad"] for p in r.printed}
    finally:
        shutil.rmtree(tmp, ignore_errors=True)
    for i, m in enumerate(meta):
        bad = verdict.get(i + 1)
        if bad is None:
            raise tlc.TLCFailure(f"no verdict for law instance {i + 1}")
        run.case(json.dumps([m["law"], m["text"], [o["npath"] + o.get("vtext", "") for o in m["A"] + m["B"]]]), nontrivial=m["ok"])
        if bad:
            d0 = doc(m["t0"])
            o = m["B"][0]
            I = d0["body"]["items"] if o["sel"] == 0 else (d0["layers"][len(d0["layers"]) - o["sel"]] if 0 < o["sel"] <= len(d0["layers"]) else [])
            run.violation(f"{sorted(bad)[0]}|sel={min(o['sel'], 2)}|{edit.path_class(I, o['path']) if d0['shape'] == 'ok' else d0['shape']}"
                          f"|layers={min(len(d0['layers']), 2)}|file_comments={bool(d0['allc'])}",
                          sorted(bad)[0],
                          {"input": m["text"], "ops_A": [f"{o['f']} {o['npath']} {o.get('vtext', '')}" for o in m["A"]],
                           "ops_B": [f"{o['f']} {o['npath']} {o.get('vtext', '')}" for o in m["B"]],
                           "text_A": m["ta"], "text_B": m["tb"], "text_0": m["t0"]})
    for m in meta[:: max(1, len(meta) // 5)][:5]:
        run.sample({"law": m["law"], "input": m["text"], "A": [o["npath"] for o in m["A"]], "B": [o["npath"] for o in m["B"]],
                    "text_A": m["ta"], "text_B": m["tb"]})
    run.coverage["instances_by_law"] = {law: sum(1 for m in meta if m["law"] == law) for law in ("idempotent", "set_rm", "rm_set", "commute")}
    run.assumptions += ["law instances come from the depth-1 transitions of Edit.tla (every seed x relevant operation)",
                        "oracle-free: the two executions are compared with each other (rm_set: trees read back by harness/project.py)"]
    return run.finish(rule=("law instances = idempotence for every successful set, set-then-rm for every fresh single-segment / scoped "
                            "path, rm-then-set for every removable literal leaf, commutation for every pair of sets on distinct existing "
                            "paths, each under a random wrapper; both sides executed on the real code; TLC (Laws_Trace) compares; "
                            "distinct by (law, text, operations); non-trivial when every call succeeded"))
