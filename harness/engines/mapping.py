"""C14: Mapping.tla histories -> real item get/set/del on one document object -> Mapping_Trace.tla."""
from __future__ import annotations

import json
import random
import shutil
import tempfile
from concurrent.futures import ThreadPoolExecutor
from pathlib import Path

from .. import tlc
from ..common import Run
from ..concretize import render_doc
from ..pool import pmap
from ..project import doc, has_error
from . import edit


def model_histories(tier: str, seed: int, run: Run) -> list[dict]:
    dig = tlc.spec_digest("Mapping")

    def emit():
        res = tlc.must_ok(tlc.run("Mapping", "Mapping_emit.cfg", workers=1, timeout=1800), "Mapping emit")
        return {"printed": res.printed, "generated": res.generated, "distinct": res.distinct}
    d1 = tlc.cached(f"mapping-emit-{dig}", emit)
    nsim = 300 if tier == "quick" else 3000

    def sim():
        res = tlc.must_ok(tlc.run("Mapping", "Mapping_sim.cfg", workers=1, timeout=1800,
                                  extra=("-simulate", f"num={nsim}", "-depth", "6", "-seed", str(seed + 5))), "Mapping sim")
        seen, out = set(), []
        for h in res.printed:
            k = json.dumps(h, sort_keys=True)
            if k not in seen:
                seen.add(k)
                out.append(h)
        return {"printed": out[: nsim * 3]}
    sm = tlc.cached(f"mapping-sim-{dig}-{nsim}-{seed}", sim)
    run.states += d1["distinct"]
    run.transitions += d1["generated"]
    run.coverage.setdefault("tlc_runs", []).append({"run": "Mapping/Mapping_emit.cfg (all depth-1 transitions)",
                                                    "distinct_states": d1["distinct"], "transitions_emitted": len(d1["printed"])})
    run.coverage["tlc_runs"].append({"run": f"Mapping/Mapping_sim.cfg -simulate num={nsim}", "histories": len(sm["printed"])})
    hs = [{"seed": t["pre"], "steps": [{"op": t["op"], "res": t["res"], "post": t["post"]}]} for t in d1["printed"]]
    return hs + sm["printed"]


def val_of(text: str | None) -> dict:
    if text is None:
        return {"k": "none"}
    d = doc("{ q = " + text + "; }")
    if d["shape"] != "ok" or not d["body"]["items"]:
        return {"k": "opq", "h": text}
    return d["body"]["items"][0]["val"]


def check(tier: str, seed: int) -> int:
    run = Run("C14", tier, seed)
    res = tlc.must_ok(tlc.run("Mapping", "Mapping_quick.cfg", workers=16, extra=("-coverage", "1"), timeout=3600), "Mapping model")
    run.add_model(res, "Mapping/Mapping_quick.cfg (dictionary laws of the reference semantics)")
    for v in res.violated:
        run.violation(f"model|{v}", v, {"tlc_tail": res.stdout[-2000:]})
    hists = model_histories(tier, seed, run)
    rnd = random.Random(seed)
    cases = []
    for h in hists:
        uses_scope = any(st["op"]["s"]["kind"] == "scope" for st in h["steps"])
        # wrappers the mapping API's own target resolution supports (it has no case for a call whose argument is a
        # parenthesised lambda; C14 is about dictionary laws, not about supported shapes)
        supported = [w for w in edit.WRAPS[1:] if w[-2:] != ["paren", "lam_id"] or "call" not in w]
        wraps = [[]] if uses_scope else [[], rnd.choice(supported)]
        for w in wraps:
            if w and w[-1] == "call" and h["seed"]["layers"]:
                continue
            text = render_doc(dict(h["seed"], wrap=w))
            if has_error(text):
                continue
            keys = set()
            for layer in h["seed"]["layers"]:
                keys |= {x["ap"][0] for x in layer if x["k"] == "b"}
            def collect(items):
                for x in items:
                    if x["k"] == "b":
                        keys.add(x["ap"][0])
                        if x["val"]["k"] == "set":
                            collect(x["val"]["items"])
                    else:
                        keys.update(x["names"])
            collect(h["seed"]["body"]["items"])
            keys |= {st["op"]["k"] for st in h["steps"]} | {"zz", "k"}
            cases.append({"id": len(cases) + 1, "text": text, "wrap": w, "universe": sorted(keys),
                          "ops": [st["op"] for st in h["steps"]]})
    outs = pmap("harness.impl", "map_history", [{"text": c["text"], "ops": c["ops"], "universe": c["universe"]} for c in cases], chunk=150)
    tlc.WORK.mkdir(exist_ok=True)
    tmp = Path(tempfile.mkdtemp(prefix="map-", dir=tlc.WORK))
    try:
        lines = []
        for c, r in zip(cases, outs):
            c["r"] = r
            if "fail" in r:
                continue
            steps = []
            for op, st in zip(c["ops"], r["steps"]):
                if "cur" not in st:
                    break
                steps.append({"op": op, "res": st["res"], "post": doc(st["cur"]), "reported": st["reported"],
                              "surface_ok": st["surface_ok"], "got": val_of(st.get("got_after")), "universe": c["universe"]})
            c["events"] = steps
            lines.append(json.dumps({"id": c["id"], "seed": doc(r["text0"]), "steps": steps}, ensure_ascii=False))
        shards = 8
        files = []
        for s in range(shards):
            f = tmp / f"s{s}.ndjson"
            f.write_text("\n".join(lines[s::shards]) + "\n")
            files.append(f)

        def one(f):
            return tlc.must_ok(tlc.run("Mapping_Trace", "Mapping_Trace.cfg", workers=1, env={"TRACE_FILE": str(f)}, timeout=3600), "Mapping_Trace")
        with ThreadPoolExecutor(max_workers=shards) as ex:
            rs = list(ex.map(one, files))
        verdict = {}
        unspec: set = set()
        for r in rs:
            run.add_model(r)
            for p in r.printed:
                verdict[(p["id"], p["l"])] = p["bad"]
                if p.get("unspec"):
                    unspec.add((p["id"], p["l"]))
        run.traces += len(lines)
    finally:
        shutil.rmtree(tmp, ignore_errors=True)
    for c in cases:
        if "fail" in c["r"]:
            run.violation(f"parse_failed|{c['r']['fail']['exc']}", "SeedParses", {"input": c["text"], "exception": c["r"]["fail"]})
            continue
        for k, e in enumerate(c.get("events", [])):
            bad = verdict.get((c["id"], k + 1))
            if bad is None:
                raise tlc.TLCFailure(f"no verdict for history {c['id']} step {k + 1}")
            run.case(json.dumps([c["text"], c["ops"][:k + 1]]), nontrivial=True)
            if (c["id"], k + 1) in unspec:
                break
            if bad:
                op = c["ops"][k]
                pre = doc(c["r"]["text0"]) if k == 0 else c["events"][k - 1]["post"]
                items = pre["body"]["items"] if op["s"]["kind"] == "doc" else \
                    (pre["layers"][-1] if pre["layers"] else []) if op["s"]["kind"] == "scope" else \
                    next((x["val"].get("items", []) for x in pre["body"]["items"] if x["k"] == "b" and x["ap"] == [op["s"]["via"]]), [])
                kc = "mixed_root" if (any(x["k"] == "b" and len(x["ap"]) > 1 and x["ap"][0] == op["k"] for x in items)
                                      and any(x["k"] == "b" and x["ap"] == [op["k"]] for x in items)) else \
                    "family" if any(x["k"] == "b" and len(x["ap"]) > 1 and x["ap"][0] == op["k"] for x in items) else \
                    "existing" if any(x["k"] == "b" and x["ap"] == [op["k"]] for x in items) else \
                    "inherited" if any(x["k"] == "i" and op["k"] in x["names"] for x in items) else "missing"
                via = "-"
                if op["s"]["kind"] == "nested":
                    via = "family" if any(x["k"] == "b" and len(x["ap"]) > 1 and x["ap"][0] == op["s"]["via"] for x in pre["body"]["items"]) else "explicit"
                run.violation(f"{sorted(bad)[0]}|{op['m']}|surface={op['s']['kind']}|via={via}|key={kc}|v={op['v']['k'] if op['m'] == 'set' else '-'}",
                              sorted(bad)[0],
                              {"input": c["text"], "ops": [f"{o['m']} {o['s']['kind']}{'[' + o['s']['via'] + ']' if o['s']['via'] else ''}[{o['k']}]" for o in c["ops"][:k + 1]],
                               "result": c["r"]["steps"][k]["res"], "exception": c["r"]["steps"][k].get("exc"),
                               "output": c["r"]["steps"][k].get("cur"), "reported_keys": c["r"]["steps"][k]["reported"], "all_clauses": bad})
                break
    for c in cases[:: max(1, len(cases) // 5)][:5]:
        run.sample({"input": c["text"], "ops": c["ops"], "results": [s["res"] for s in c["r"].get("steps", [])],
                    "final": (c["r"].get("steps") or [{}])[-1].get("cur")})
    run.assumptions += ["python values handed to the API: int and dict (model values)",
                        "the scope surface is exercised on documents without wrappers (source.expr is the attribute set)"]
    return run.finish(rule=("histories = every depth-1 transition of Mapping.tla (get/set/del x document / nested set / scope x existing / "
                            "family / inherited / missing key) plus -simulate walks of <= 4 operations on one object; after each step the "
                            "keys the real mapping reports and the text it rebuilds to are recorded and judged by TLC (Mapping_Trace)"))
