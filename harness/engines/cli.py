"""C16: Cli.tla model + recorded invocations of the real CLI judged by Cli_Trace.tla."""
from __future__ import annotations

import json
import random
import shutil
import tempfile
from pathlib import Path

from .. import tlc
from ..common import Run
from ..concretize import render_doc
from ..pool import pmap

NONCANON = ["{a=1;}", "{ a = 1;\n\n\n  b = 2; }\n", "{\n  a   = 1;\n}\n", "{ a = 1; # c\n}", "let x = 1; in { a = x; }\n",
            "{ a = [1 2]; }\n", "\n\n{ a = 1; }\n"]
ERRONEOUS = ["{ a = ; }\n", "{ a = 1;", "1 2 ]", "{ a = 1; } }", "let in", "{ a = 1;\n  b = ;\n}\n"]
BLANK = ["", "\n", "\n\n", "   ", "# only a comment\n"]
BOM = ["\ufeff{ a = 1; }\n", "\ufeff{\n  a = 1;\n}\n", "\ufeff"]          # a byte-order mark in front (both channels must treat it alike)
NON_EDITABLE = ["[ 1 2 ]\n", "\"s\"\n", "1\n", "x\n"]
COMMANDS = [
    {"cmd": "test"},
    {"cmd": "set", "npath": "a", "value": "2"},
    {"cmd": "set", "npath": "zz.y", "value": "[ 3 ]"},
    {"cmd": "set", "npath": "@s", "value": "1"},
    {"cmd": "set", "npath": "@@@deep", "value": "1"},
    {"cmd": "set", "npath": "", "value": "1"},
    {"cmd": "set", "npath": "a..b", "value": "1"},
    {"cmd": "set", "npath": "a", "value": "1 2 ]"},
    {"cmd": "set", "npath": "a", "value": ""},
    {"cmd": "set", "npath": "a", "value": "{ k = \"v\"; }"},
    {"cmd": "rm", "npath": "a"},
    {"cmd": "rm", "npath": "no_such_key"},
    {"cmd": "rm", "npath": "\"unterminated"},
    {"cmd": "rm", "npath": "@u"},
]
CHAINS = [
    [COMMANDS[1], COMMANDS[1], {"cmd": "test"}],
    [COMMANDS[2], COMMANDS[10], {"cmd": "test"}],
    [COMMANDS[3], COMMANDS[13], {"cmd": "test"}],
    [COMMANDS[1], COMMANDS[2], COMMANDS[9], {"cmd": "test"}],
    [COMMANDS[10], COMMANDS[11], {"cmd": "test"}],
]


def seed_docs(run: Run) -> list[dict]:
    from .edit import model_histories
    hs = model_histories("quick", 0, Run("_", "quick", 0))
    seen, docs = set(), []
    for h in hs:
        k = json.dumps(h["seed"], sort_keys=True)
        if k not in seen:
            seen.add(k)
            docs.append(h["seed"])
    return docs


def nl_count(s: str) -> int:
    return min(3, len(s) - len(s.rstrip("\n")))


def check(tier: str, seed: int) -> int:
    run = Run("C16", tier, seed)
    ok = tlc.must_ok(tlc.run("Cli", "Cli_ok.cfg", workers=1, extra=("-coverage", "1")), "Cli model")
    run.add_model(ok, "Cli/Cli_ok.cfg")
    for v in ok.violated:
        run.violation(f"model|{v}", v, {"tlc_tail": ok.stdout[-2000:]})
    mut = tlc.run("Cli", "Cli_mutant.cfg", workers=1)
    run.coverage["spec_mutant_AlwaysTerminate_refuted"] = "C16_NewlineStable" in mut.violated
    if "C16_NewlineStable" not in mut.violated:
        run.notes.append("vacuity: the AlwaysTerminate mutant design was NOT refuted by C16_NewlineStable")
    rnd = random.Random(seed)
    docs = seed_docs(run)
    texts: list[tuple[str, str]] = []
    wraps = [[], ["lam_formals"], ["call"], ["with"]]
    for d in docs[:: (3 if tier == "quick" else 1)]:
        for nl in (0, 1, 2):
            w = rnd.choice(wraps)
            if w == ["call"] and d["layers"]:
                w = []
            texts.append(("canon", render_doc(dict(d, wrap=w, nl=nl))))
            if d["layers"] and not w:
                # trivia owned by the let layers (a comment after every `in'), and the same document in a loose layout
                texts.append(("layer_trivia", render_doc(dict(d, wrap=w, nl=nl), in_comments=True)))
                if nl == 1:
                    texts.append(("loose", render_doc(dict(d, wrap=w, nl=nl), loose=True)))
    texts += [("noncanon", t) for t in NONCANON] + [("error", t) for t in ERRONEOUS] + [("blank", t) for t in BLANK] \
        + [("noneditable", t) for t in NON_EDITABLE] + [("bom", t) for t in BOM]
    cases = []
    sp_budget = 40 if tier == "quick" else 400
    for cls, t in texts:
        chains = [[c] for c in COMMANDS] + CHAINS
        if cls == "canon" and tier == "quick":
            chains = rnd.sample(chains, 6)
        if cls in ("layer_trivia", "loose"):
            chains = [[COMMANDS[13]], [COMMANDS[3]], CHAINS[2]] + (rnd.sample(chains, 2) if tier == "quick" else chains)
        for ch in chains:
            sp = sp_budget > 0 and (cls != "canon" or rnd.random() < 0.05)
            if sp:
                sp_budget -= 1
            cases.append({"id": len(cases) + 1, "cls": cls, "text": t, "chain": ch, "subprocess": sp})
    results = pmap("harness.impl", "cli_chain", cases, chunk=40)
    tlc.WORK.mkdir(exist_ok=True)
    tmp = Path(tempfile.mkdtemp(prefix="cli-", dir=tlc.WORK))
    try:
        lines = []
        for c, r in zip(cases, results):
            c["r"] = r
            steps = []
            for st in r["steps"]:
                o = st["stdout"]
                lib = st.get("lib_text")
                kind = "OK" if o == "OK\n" else "Fail" if o == "Fail\n" else "empty" if o == "" else \
                    "text" if st["cmd"] != "test" else "other"
                twin = o == st["stdout_f"] and st["status"] == st["status_f"]
                if "sp_stdout" in st:
                    twin = twin and st["sp_stdout"] == o and st["sp_status"] == st["status"]
                steps.append({"cmd": st["cmd"], "in_err": st["in_err"], "in_fix": st["in_fix"], "in_nl": nl_count(st["input"]),
                              "lib_ok": bool(st.get("lib_ok")), "lib_nl": nl_count(lib) if lib is not None else 0,
                              "out_is_lib": lib is not None and o == lib, "out_is_lib_nl": lib is not None and o == lib + "\n",
                              "out_kind": kind, "out_nl": nl_count(o), "status": st["status"] if isinstance(st["status"], int) else 1,
                              "twin_same": twin})
            c["steps"] = steps
            lines.append(json.dumps({"id": c["id"], "steps": steps}))
        f = tmp / "cli.ndjson"
        f.write_text("\n".join(lines) + "\n")
        res = tlc.must_ok(tlc.run("Cli_Trace", "Cli_Trace.cfg", workers=1, env={"TRACE_FILE": str(f)}), "Cli_Trace")
        run.add_model(res, "Cli_Trace")
        run.traces += len(lines)
        verdict = {(p["id"], p["l"]): p["bad"] for p in res.printed}
    finally:
        shutil.rmtree(tmp, ignore_errors=True)
    for c in cases:
        for k, st in enumerate(c["steps"]):
            bad = verdict.get((c["id"], k + 1))
            if bad is None:
                raise tlc.TLCFailure(f"no verdict for case {c['id']} step {k + 1}")
            inv = c["chain"][k]
            run.case(json.dumps([c["text"], c["chain"][:k + 1]]), nontrivial=True)
            if bad:
                cl = sorted(bad)[0]
                raw = c["r"]["steps"][k]
                key = f"{cl}|{inv['cmd']}|input={c['cls']}|in_nl={st['in_nl']}|lib_ok={st['lib_ok']}|out={st['out_kind']}|status={st['status']}"
                run.violation(key, cl, {"input": raw["input"], "argv": [inv.get("cmd"), inv.get("npath"), inv.get("value")],
                                        "stdout": raw["stdout"], "status": raw["status"], "stderr": raw["stderr"],
                                        "stdout_file_channel": raw["stdout_f"], "library": raw.get("lib_text", raw.get("lib_exc")),
                                        "all_clauses": bad, "chain": c["chain"][:k + 1]})
                break
    for c in cases[:: max(1, len(cases) // 5)][:5]:
        run.sample({"input": c["text"], "chain": c["chain"], "stdout": [s["stdout"] for s in c["r"]["steps"]],
                    "status": [s["status"] for s in c["r"]["steps"]]})
    run.assumptions += ["in-process main(argv) with patched stdin/stdout stands for the process (a subprocess sample is compared with it)",
                        "an uncaught exception in main() is exit status 1 with a traceback on stderr"]
    run.coverage["subprocess_invocations"] = sum(1 for c in cases if c["subprocess"])
    return run.finish(rule=("input texts = canonical Edit.tla seed documents (0/1/2 final newlines, several wrappers), non-canonical, "
                            "erroneous, blank and non-editable texts; commands = test, succeeding and failing set/rm; single "
                            "invocations and chains with stdout redirected over the file; both channels every time; each step "
                            "judged by TLC (Cli_Trace.tla); distinct by (input, command prefix)"))
