"""Layout engine: Gen.tla programs -> real parse/rebuild -> Fmt_Trace.tla verdicts.
Serves C01, C03, C06, C18 (and supplies corpora to C07, C15, C20)."""
from __future__ import annotations

import json
import os
import shutil
import tempfile
from concurrent.futures import ThreadPoolExecutor
from pathlib import Path

from .. import tlc
from ..common import Run
from ..concretize import gen_key, render_gen
from ..pool import pmap
from ..project import has_error, has_error_mod_tc, items, line_info

UNSUPPORTED = {"uri", "legacy_let"}     # constructs the library documents as unsupported (ValueError allowed)


def gen_programs(tier: str, seed: int, run: Run | None = None) -> list[dict]:
    """Ask TLC for the program descriptors of this tier (cached: depends on spec + cfg only)."""
    cfg = "Gen_quick.cfg" if tier == "quick" else "Gen_wide.cfg"
    key = f"gen-{cfg}-{tlc.spec_digest('Gen')}"

    def produce():
        res = tlc.must_ok(tlc.run("Gen", cfg, workers=1, extra=("-coverage", "1"), timeout=1800), "Gen")
        return {"printed": res.printed, "generated": res.generated, "distinct": res.distinct,
                "depth": res.depth, "wall_s": res.wall_s, "coverage": res.coverage}
    data = tlc.cached(key, produce)
    if run is not None:
        run.states += data["distinct"]
        run.transitions += data["generated"]
        run.coverage.setdefault("tlc_runs", []).append(
            {"run": f"Gen/{cfg}", "distinct_states": data["distinct"], "states_generated": data["generated"],
             "depth": data["depth"], "programs": len(data["printed"])})
        run.coverage.setdefault("coverage_by_action", {})[f"Gen/{cfg}"] = data["coverage"]
    # programs with TWO filled gaps: the pair space (3.3 million states) is sampled by random walks of the same spec
    npairs = 25000 if tier == "quick" else 200000
    pseed = 23 if tier == "quick" else seed + 23     # quick: one fixed sample (every change meets the same programs)

    def pairs():
        res = tlc.must_ok(tlc.run("Gen", "Gen_pairs_sim.cfg", workers=1, timeout=3600,
                                  extra=("-simulate", f"num={npairs}", "-depth", "6", "-seed", str(pseed))), "Gen pairs")
        seen, out = set(), []
        for p in res.printed:
            k = json.dumps(p, sort_keys=True)
            if k not in seen:
                seen.add(k)
                out.append(p)
        return {"printed": out}
    pd = tlc.cached(f"gen-pairs-{npairs}-{pseed}-{tlc.spec_digest('Gen')}", pairs)
    if run is not None:
        run.coverage["tlc_runs"].append({"run": f"Gen/Gen_pairs_sim.cfg -simulate num={npairs} (two filled gaps)",
                                         "programs": len(pd["printed"])})
    return data["printed"] + pd["printed"]


def make_cases(descs: list[dict], seed: int) -> tuple[list[dict], int]:
    """Concretize; discard texts tree-sitter does not accept (generator discards, never violations)."""
    cases, discards, seen = [], 0, set()
    for d in descs:
        text = render_gen(d, seed)
        if text in seen:
            continue
        seen.add(text)
        if has_error(text):
            discards += 1
            continue
        cases.append({"id": len(cases) + 1, "key": gen_key(d), "con": d["con"], "text": text,
                      "cmt": any(f["cls"] != "ws" for f in d.get("fills", [])) or "#" in d["lead"] + d["trail"]})
    return cases, discards


def execute(cases: list[dict]) -> None:
    res = pmap("harness.impl", "roundtrip", [c["text"] for c in cases])
    for c, r in zip(cases, res):
        c["r"] = r


def norm_line_job(c: dict) -> str:
    """(pool worker) projection of one emitted text for Norm_Trace."""
    return json.dumps({"id": c["id"], "out": items(c["text"]), "lines": line_info(c["text"])}, ensure_ascii=False)


def judge_norm(texts: list[dict], run: Run, shards: int = 6) -> dict:
    """C18 clauses on texts [{id, text}] (outputs of edits), judged by TLC (Norm_Trace.tla)."""
    tlc.WORK.mkdir(exist_ok=True)
    tmp = Path(tempfile.mkdtemp(prefix="norm-", dir=tlc.WORK))
    try:
        lines = pmap("harness.engines.layout", "norm_line_job", texts, chunk=400)
        shards = max(1, min(shards, len(lines) // 300 + 1))
        files = []
        for s_ in range(shards):
            f = tmp / f"n{s_}.ndjson"
            f.write_text("\n".join(lines[s_::shards]) + "\n")
            files.append(f)

        def one(f):
            return tlc.must_ok(tlc.run("Norm_Trace", "Norm_Trace.cfg", workers=1, env={"TRACE_FILE": str(f)}, timeout=3600), "Norm_Trace")
        with ThreadPoolExecutor(max_workers=shards) as ex:
            rs = list(ex.map(one, files))
        out = {}
        for r in rs:
            run.add_model(r)
            for p in r.printed:
                out[p["id"]] = p
        run.coverage.setdefault("tlc_runs", []).append({"run": "Norm_Trace (edit outputs)", "jvms": shards, "texts": len(lines)})
        run.traces += len(lines)
        return out
    finally:
        shutil.rmtree(tmp, ignore_errors=True)


def case_line_job(c: dict) -> str | None:
    """(pool worker: CST projection only)"""
    return _case_line(c)


def _case_line(c: dict) -> str | None:
    r = c["r"]
    if "out" not in r:
        return None
    return json.dumps({"id": c["id"], "t0": c["text"], "inp": items(c["text"]), "out": items(r["out"]),
                       "o1": r["out"], "o2": r.get("out2", "<<second pass raised>>"),
                       "err2": bool(r.get("err2")) and not r.get("err"),
                       "out_err": has_error_mod_tc(r["out"]), "lines": line_info(r["out"])}, ensure_ascii=False)


def judge(cases: list[dict], run: Run, shards: int = 8, label: str = "Fmt_Trace") -> dict:
    """Feed the recorded executions to TLC (Fmt_Trace.tla), sharded over several JVMs. Returns id -> verdict."""
    tlc.WORK.mkdir(exist_ok=True)
    tmp = Path(tempfile.mkdtemp(prefix="fmt-", dir=tlc.WORK))
    try:
        judged = [c for c in cases if "out" in c["r"]]
        all_lines = pmap("harness.engines.layout", "case_line_job",
                         [{"id": c["id"], "text": c["text"], "r": c["r"]} for c in judged], chunk=400)
        results = tlc.run_sharded("Fmt_Trace", "Fmt_Trace.cfg", all_lines, what=label, per_shard=15000,
                                  min_shards=max(1, min(shards, len(judged) // 200 + 1)))
        shards = len(results)
        verdicts: dict[int, dict] = {}
        for res in results:
            run.add_model(res)
            for p in res.printed:
                v = verdicts.setdefault(p["id"], {})
                v.update(p)
        run.coverage.setdefault("tlc_runs", []).append(
            {"run": label, "jvms": shards, "cases": len(judged),
             "distinct_states": sum(r.distinct for r in results), "wall_s": round(max(r.wall_s for r in results), 1)})
        run.traces += len(judged)
        # second pass: localise rejected cases
        rejected = [c for c in judged if not verdicts.get(c["id"], {}).get("acc")]
        if rejected:
            f = tmp / "rejected.ndjson"
            with f.open("w") as fh:
                for c in rejected[:3000]:
                    fh.write(_case_line(c) + "\n")
            res = tlc.must_ok(tlc.run("Fmt_Trace", "Fmt_Trace_frontier.cfg", workers=1,
                                      env={"TRACE_FILE": str(f)}, timeout=3600), "Fmt_Trace frontier")
            for p in res.printed:
                v = verdicts.setdefault(p["id"], {})
                if "lo" in p and p["lo"] >= v.get("front", {}).get("lo", -1):
                    v["front"] = p
        return verdicts
    finally:
        shutil.rmtree(tmp, ignore_errors=True)


def frontier_detail(c: dict, v: dict) -> dict:
    """Human-readable description of where the transducer got stuck."""
    fr = v.get("front")
    if not fr:
        return {}
    inp, out = items(c["text"]), items(c["r"]["out"])
    ti = [i for i in inp if i["k"] == "t"]
    ci = [i for i in inp if i["k"] == "c"]
    nxt = out[fr["lo"]:fr["lo"] + 2]
    return {"expected_next_token": ti[fr["pt"] - 1]["s"] if fr["pt"] <= len(ti) else None,
            "expected_next_comment": ci[fr["pc"] - 1]["s"] if fr["pc"] <= len(ci) else None,
            "observed_next": nxt, "emitted_items": fr["lo"]}
