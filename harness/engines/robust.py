"""C07 and the error-class half of C20: Damage.tla texts -> real library / CLI -> Robust.tla."""
from __future__ import annotations

import json
import shutil
import tempfile
from concurrent.futures import ThreadPoolExecutor
from pathlib import Path

from .. import tlc
from ..common import Run
from ..concretize import render_damaged
from ..pool import pmap
from ..project import cst

NON_NIX = ["", " ", "\n\n", "hello world", "<?xml version=\"1.0\"?>", "{\"json\": [1, 2]}", "def f(x):\n    return x\n",
           "#!/bin/sh\necho hi\n", "﻿{ a = 1; }", "{ a = 1; }\x00", "ünïcödé ≠ nix", "''", "\"", "${", "/*", "# only\n", "a b c d e f g"]


def facts(text: str) -> tuple[bool, bool]:
    root, _ = cst(text)
    err = bool(root.has_error)
    n = len([c for c in root.children if c.type != "comment"])
    return err, (not err) and n == 1


def damaged_texts(tier: str, seed: int, run: Run) -> list[dict]:
    cfg = f"Damage_{tier}.cfg"

    def produce():
        res = tlc.must_ok(tlc.run("Damage", cfg, workers=1, timeout=7200, heap="8g"), "Damage")
        return {"printed": res.printed, "generated": res.generated, "distinct": res.distinct}
    d = tlc.cached(f"damage-{cfg}-{tlc.spec_digest('Damage')}", produce)
    run.states += d["distinct"]
    run.transitions += d["generated"]
    run.coverage.setdefault("tlc_runs", []).append({"run": f"Damage/{cfg}", "distinct_states": d["distinct"], "cases": len(d["printed"])})
    seen, out = set(), []
    for m in d["printed"]:
        t = render_damaged(m, seed)
        if t not in seen:
            seen.add(t)
            key = f"{m.get('con', 'soup')}|{m.get('fault', 'soup')}" + (f"|{m['delim']}" if m.get("delim") else "")
            out.append({"text": t, "key": key})
    for t in NON_NIX:
        if t not in seen:
            seen.add(t)
            out.append({"text": t, "key": "non_nix"})
    return out


def evaluate(cases: list[dict], run: Run) -> dict:
    outs = pmap("harness.impl", "robust_case", [c["text"] for c in cases], chunk=300)
    tlc.WORK.mkdir(exist_ok=True)
    tmp = Path(tempfile.mkdtemp(prefix="rob-", dir=tlc.WORK))
    try:
        lines = []
        for i, (c, o) in enumerate(zip(cases, outs), start=1):
            c["id"], c["o"] = i, o
            err, one = facts(c["text"])
            c["err"], c["one"] = err, one
            lines.append(json.dumps({"id": i, "err": err, "one": one,
                                     "rebuild": {k: o["rebuild"][k] for k in ("res", "mro", "same_bytes")},
                                     "test": o["test"], "set": {k: o["set"][k] for k in ("res", "mro")},
                                     "rm": {k: o["rm"][k] for k in ("res", "mro")},
                                     "value": {k: o["value"][k] for k in ("res", "mro")}, "cli_set": o["cli_set"],
                                     "edits": o["edits"], "cli_edits": o["cli_edits"]}))
        shards = 6
        files = []
        for s in range(shards):
            f = tmp / f"s{s}.ndjson"
            f.write_text("\n".join(lines[s::shards]) + "\n")
            files.append(f)

        def one_(f):
            return tlc.must_ok(tlc.run("Robust", "Robust.cfg", workers=1, env={"TRACE_FILE": str(f)}, timeout=3600), "Robust")
        with ThreadPoolExecutor(max_workers=shards) as ex:
            rs = list(ex.map(one_, files))
        verdict = {}
        for r in rs:
            run.add_model(r)
            for p in r.printed:
                verdict[p["id"]] = p
        run.traces += len(lines)
        return verdict
    finally:
        shutil.rmtree(tmp, ignore_errors=True)


def check_c07(tier: str, seed: int) -> int:
    run = Run("C07", tier, seed)
    cases = damaged_texts(tier, seed, run)
    verdict = evaluate(cases, run)
    nerr = 0
    for c in cases:
        v = verdict.get(c["id"])
        if v is None:
            raise tlc.TLCFailure(f"no verdict for case {c['id']}")
        nerr += c["err"]
        run.case(c["text"], nontrivial=c["err"] or not c["one"])
        if v["c07"]:
            cl = sorted(v["c07"])[0]
            o = c["o"]
            detail = {"input": c["text"], "has_syntax_error": c["err"], "one_expression": c["one"], "generator": c["key"],
                      "rebuild": o["rebuild"], "test": o["test"], "set": o["set"], "rm": o["rm"], "value": o["value"], "cli_set": o["cli_set"],
                      "edits": o["edits"], "cli_edits": o["cli_edits"], "all_clauses": v["c07"]}
            what = {"C07_ValueWellFormed": f"value_res={o['value']['res']}", "C07_PassThrough": f"rebuild={o['rebuild']['res']}",
                    "C07_NeverEdited_set": f"set={o['set']['res']}", "C07_NeverEdited_rm": f"rm={o['rm']['res']}"}.get(cl, "")
            if cl.startswith("C07_NeverEdited_path:") or cl.startswith("C07_CliSilent:"):
                what = "scoped" if "@" in cl else "plain"
            run.violation(f"{cl}|{what}|{'one_expr' if c['one'] else 'error' if c['err'] else 'not_one_expr'}", cl, detail)
    run.coverage["texts_with_syntax_error"] = nerr
    run.coverage["texts_not_one_expression"] = sum(1 for c in cases if not c["one"])
    for c in [c for c in cases if c["err"]][:: max(1, nerr // 5)][:5]:
        run.sample({"input": c["text"], "generator": c["key"], "rebuild_same_bytes": c["o"]["rebuild"]["same_bytes"],
                    "test": c["o"]["test"], "set": c["o"]["set"]["res"], "as_value": c["o"]["value"]["res"]})
    run.level = "fault_enumeration"
    run.assumptions += ["tree-sitter-nix 0.1.0 decides 'contains a syntax error' (also for the library itself)",
                        "faults: one chunk deleted / duplicated / delimiter inserted / truncation per program; token soups; non-Nix text"]
    return run.finish(rule=("texts = every Gen.tla construct in the tier's contexts with ONE fault (Damage.tla: delete, duplicate, insert "
                            "each of 18 delimiters, truncate after / inside each chunk), token soups and non-Nix text; for each: rebuild, "
                            "`nima test', set / rm through plain, nested, quoted and scope-prefixed (@, @@) paths, the text as VALUE, `nima set' / `nima rm' on stdin; judged by TLC (Robust.tla); non-trivial when "
                            "the text has a syntax error or is not one expression"))


def check_c20(tier: str, seed: int) -> int:
    run = Run("C20", tier, seed)
    # (i) documented error classes on damaged / arbitrary texts
    cases = damaged_texts(tier, seed, run)
    verdict = evaluate(cases, run)
    for c in cases:
        v = verdict.get(c["id"])
        if v is None:
            raise tlc.TLCFailure(f"no verdict for case {c['id']}")
        run.case(c["text"], nontrivial=True)
        if v["c20"]:
            o = c["o"]["rebuild"]
            import re
            run.violation(f"{sorted(v['c20'])[0]}|{re.sub(r'[0-9]+', 'N', o.get('msg') or '')[:60]}", sorted(v["c20"])[0],
                          {"input": c["text"], "generator": c["key"], "rebuild": o})
    # ... and on every VALID program of Gen.tla: a round trip of valid input must not raise an internal error either
    from . import layout
    gcases, _ = layout.make_cases(layout.gen_programs("quick" if tier == "quick" else "thorough", seed, run), seed)
    layout.execute(gcases)
    import re as _re
    for g in gcases:
        run.case(g["text"], nontrivial=True)
        f = g["r"].get("fail") or g["r"].get("fail2")
        if f and not ({"ValueError", "SyntaxError"} & set(f["mro"])):
            run.violation(f"C20_DocumentedErrors:{f['exc']}|valid_program|{_re.sub(r'[0-9]+', 'N', f.get('msg') or '')[:60]}",
                          "C20_DocumentedErrors", {"input": g["text"], "generator": g["key"], "exception": f})
    run.coverage["valid_programs_round_tripped"] = len(gcases)
    # (ii) complexity: the model separates polynomial from exponential; the real renderer-call counts are judged by TLC
    res = tlc.must_ok(tlc.run("Work", "Work_model.cfg", workers=4, timeout=1800), "Work model")
    run.add_model(res, "Work/Work_model.cfg (TestSeparates)")
    for vv in res.violated:
        run.violation(f"model|{vv}", vv, {"tlc_tail": res.stdout[-1500:]})
    cfg = f"Work_families_{tier}.cfg"

    def produce():
        r = tlc.must_ok(tlc.run("Work", cfg, workers=1, timeout=3600), "Work families")
        return {"printed": r.printed, "distinct": r.distinct, "generated": r.generated}
    fams = tlc.cached(f"work-{cfg}-{tlc.spec_digest('Work')}", produce)
    run.states += fams["distinct"]
    run.transitions += fams["generated"]
    run.coverage.setdefault("tlc_runs", []).append({"run": f"Work/{cfg}", "families": len(fams["printed"])})
    d = 12
    wcases = [{"fam": f["fam"], "frames": f["frames"], "d": d, "limit": 5} for f in fams["printed"]]
    outs = pmap("harness.impl", "work_case", wcases, chunk=8)
    widths = pmap("harness.impl", "long_file_case", [2000 if tier == "quick" else 10000], procs=1)
    tmp = Path(tempfile.mkdtemp(prefix="work-", dir=tlc.WORK))
    try:
        lines = []
        for i, (w, o) in enumerate(zip(wcases, outs), start=1):
            w["o"] = o
            lines.append(json.dumps({"id": i, "fam": w["fam"], "d": d, "c1": o.get("c1", 0), "c2": o.get("c2", 0),
                                     "timeout": bool(o.get("timeout")) or "raised" in o}))
        wo = widths[0]
        base = len(wcases)
        for j, shape in enumerate(("bindings", "chain", "list"), start=1):
            lines.append(json.dumps({"id": base + j, "fam": ["width:" + shape], "d": 0, "c1": wo.get(f"{shape}_c1", 0),
                                     "c2": wo.get(f"{shape}_c2", 0), "timeout": f"{shape}_fail" in wo}))
        f = tmp / "work.ndjson"
        f.write_text("\n".join(lines) + "\n")
        r = tlc.must_ok(tlc.run("Work_Trace", "Work_Trace.cfg", workers=1, env={"TRACE_FILE": str(f)}, timeout=1800), "Work_Trace")
        run.add_model(r, "Work_Trace")
        run.traces += len(lines)
        wv = {p["id"]: p["bad"] for p in r.printed}
    finally:
        shutil.rmtree(tmp, ignore_errors=True)
    # root cause of an exponential family of three kinds: a pair of its kinds that is exponential on its own
    bad_small = {frozenset(w["fam"]) for i, w in enumerate(wcases, start=1) if wv.get(i) and len(set(w["fam"])) <= 2}
    for i, w in enumerate(wcases, start=1):
        run.case("family:" + ">".join(w["fam"]), nontrivial=True)
        if wv.get(i):
            ks = set(w["fam"])
            subs = sorted((len(b), "+".join(sorted(b))) for b in bad_small if b < ks or b == ks)
            kinds = subs[0][1] if subs else "+".join(sorted(ks))
            run.violation(f"{sorted(wv[i])[0]}|kinds={kinds}", sorted(wv[i])[0],
                          {"family": w["fam"], "depth": d, "renderer_calls": w["o"], "frames": w["frames"]})
    for j, shape in enumerate(("bindings", "chain", "list"), start=1):
        run.case("width:" + shape, nontrivial=True)
        if wv.get(len(wcases) + j):
            run.violation(f"{sorted(wv[len(wcases) + j])[0]}|width={shape}", sorted(wv[len(wcases) + j])[0], {"shape": shape, "counts": wo})
    run.coverage["width_counts"] = wo
    for w in wcases[:: max(1, len(wcases) // 4)][:4]:
        run.sample({"family": w["fam"], "depth": d, "calls_d": w["o"].get("c1"), "calls_2d": w["o"].get("c2"), "cpu_2d": w["o"].get("cpu_c2")})
    run.level = "model_checking"
    run.assumptions += ["renderer calls (every expression class's rebuild wrapped by a counter from the harness) stand for running time; "
                        "tree-sitter's own parsing time is taken as linear", "a 5 s CPU guard per case; a trip is reported as a violation"]
    return run.finish(rule=("(i) every Damage.tla text: parse+rebuild returns or raises ValueError / NixSyntaxError (Robust.tla, TLC-judged); "
                            "(ii) every nesting family of period <= 2 (quick) / 3 (thorough) over 16 kinds at depths 12 and 24 plus long flat "
                            "files: measured renderer-call counts judged by TLC with Poly(c_d, c_2d), a test TLC proves to separate "
                            "polynomial from exponential families on the model"))
