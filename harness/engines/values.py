"""C13: MC_Values values x construction routes -> real rendering -> Values_Trace.tla (ReadBack)."""
from __future__ import annotations

import json
import shutil
import tempfile
from pathlib import Path

from .. import tlc
from ..common import Run
from ..pool import pmap
from ..project import data, has_error

U = "é"
WHERE = {"from_dict": "k", "ctor_dict": "k", "binding": "k", "nixlist": "first", "item_assign": "k", "scope_assign": "let_k", "top": "top"}


def to_py(v: dict):
    t = v["t"]
    if t == "int":
        return int(v["s"])
    if t == "bool":
        return v["b"]
    if t == "null":
        return None
    if t == "float":
        return float(v["lex"])
    if t == "str":
        return "".join(v["c"]).replace("U", U)
    if t == "list":
        return [to_py(x) for x in v["xs"]]
    return {k: to_py(x) for k, x in zip(v["ks"], v["vs"])}


def dict_in_list(v: dict, inside: bool = False) -> bool:
    if v["t"] == "list":
        return any(dict_in_list(x, True) for x in v["xs"])
    if v["t"] == "dict":
        return inside or any(dict_in_list(x, False) for x in v["vs"])
    return False


def model_values(tier: str) -> list[dict]:
    """The (value, route) cases of MC_Values (cached emission); used by C13 and, for purity of built documents, by C15."""
    cfg = f"MC_Values_{tier}.cfg"

    def produce():
        res = tlc.must_ok(tlc.run("MC_Values", cfg, workers=1, timeout=3600), "MC_Values")
        return {"printed": res.printed, "generated": res.generated, "distinct": res.distinct, "violated": res.violated}
    return tlc.cached(f"values-{cfg}-{tlc.spec_digest('Values')}", produce)


def norm_value(v: dict) -> dict:
    """value as TLC sees it: float lex as chars + canonical number; strings as chars."""
    t = v["t"]
    if t == "float":
        return {"t": "float", "lex": list(v["lex"]), "num": repr(float(v["lex"]))}
    if t == "list":
        return {"t": "list", "xs": [norm_value(x) for x in v["xs"]]}
    if t == "dict":
        return {"t": "dict", "ks": v["ks"], "vs": [norm_value(x) for x in v["vs"]]}
    return v


def map_u(r):
    if isinstance(r, dict):
        return {k: ([("U" if c == U else c) for c in x] if k in ("raw",) else map_u(x)) for k, x in r.items()}
    if isinstance(r, list):
        return [map_u(x) for x in r]
    return r


def kinds(v: dict) -> str:
    t = v["t"]
    if t == "list":
        return "list[" + ",".join(sorted({kinds(x) for x in v["xs"]})) + "]"
    if t == "dict":
        return "dict[" + ",".join(sorted({kinds(x) for x in v["vs"]})) + "]"
    if t == "int":
        return "negint" if v["s"].startswith("-") else "int"
    if t == "float":
        lex = v["lex"] if isinstance(v["lex"], str) else "".join(v["lex"])
        return ("neg" if lex.startswith("-") else "") + ("expfloat" if "e" in lex else "float")
    return t


def check(tier: str, seed: int) -> int:
    run = Run("C13", tier, seed)
    cfg = f"MC_Values_{tier}.cfg"
    d = model_values(tier)
    run.states += d["distinct"]
    run.transitions += d["generated"]
    run.coverage.setdefault("tlc_runs", []).append({"run": f"MC_Values/{cfg} (values x routes; lemma decode(escape(s)) = s)",
                                                    "distinct_states": d["distinct"], "cases": len(d["printed"])})
    for v in d["violated"]:
        run.violation(f"model|{v}", v, {})
    cases = []
    for m in d["printed"]:
        v, route = m["v"], m["route"]
        if route == "nixlist" and v["t"] == "dict":
            continue                      # domain of C13: list elements are scalars or lists
        if dict_in_list(v):
            continue                      # (MC_Values!DictLists serve C15)
        if route in ("top",) and v["t"] == "dict" and not v["ks"]:
            pass
        cases.append({"id": len(cases) + 1, "v": v, "route": route, "pv": to_py(v)})
    outs = pmap("harness.impl", "value_case", [{"pv": c["pv"], "route": c["route"]} for c in cases], chunk=200)
    tlc.WORK.mkdir(exist_ok=True)
    tmp = Path(tempfile.mkdtemp(prefix="val-", dir=tlc.WORK))
    try:
        lines = []
        for c, o in zip(cases, outs):
            c["o"] = o
            raised = "fail" in o
            text = o.get("text", "")
            valid = (not raised) and not has_error(text)
            reading = map_u(data(text, WHERE[c["route"]])) if valid else {"t": "notdata", "why": "invalid"}
            lines.append(json.dumps({"id": c["id"], "v": norm_value(c["v"]), "r": reading, "raised": raised, "valid": valid,
                                     "same_twice": raised or o.get("text") == o.get("text_again"),
                                     "stable": "reparse_fail" not in o and o.get("t1") == o.get("t2")}, ensure_ascii=False))
        f = tmp / "values.ndjson"
        f.write_text("\n".join(lines) + "\n")
        r = tlc.must_ok(tlc.run("Values_Trace", "Values_Trace.cfg", workers=1, env={"TRACE_FILE": str(f)}, timeout=3600), "Values_Trace")
        run.add_model(r, "Values_Trace")
        run.traces += len(lines)
        verdict = {p["id"]: p["bad"] for p in r.printed}
    finally:
        shutil.rmtree(tmp, ignore_errors=True)
    for c in cases:
        bad = verdict.get(c["id"])
        if bad is None:
            raise tlc.TLCFailure(f"no verdict for case {c['id']}")
        run.case(json.dumps([c["v"], c["route"]]), nontrivial=True)
        if bad:
            cl = sorted(bad)[0]
            ctx = "list_element" if c["route"] == "nixlist" or c["v"]["t"] == "list" else "binding_value" if c["route"] != "top" else "top"
            run.violation(f"{cl}|value={kinds(c['v'])}|route={c['route']}", cl,
                          {"value": repr(c["pv"]), "route": c["route"], "output": c["o"].get("text"), "exception": c["o"].get("fail"),
                           "all_clauses": bad})
    for c in cases[:: max(1, len(cases) // 5)][:5]:
        run.sample({"value": repr(c["pv"]), "route": c["route"], "text": c["o"].get("text")})
    run.assumptions += ["Values!Reads (string decoding, Nix float token, data syntax) is the definition of 'read back as Nix data'; "
                        "harness/project.py data() is the independent reader; no Nix evaluator offline"]
    return run.finish(rule=("values = MC_Values (ints incl. 64-bit extremes, bools, null, floats by repr class, every string over 11 escaping "
                            "classes up to the length bound, lists / dicts / nestings) x 7 construction routes; each rendered by the real API, "
                            "rendered again, re-parsed twice; TLC (Values_Trace) reads the text back and judges; distinct by (value, route)"))
