"""Process pool that runs the implementation under test.  Workers import /repo afresh (spawn),
with the hook guard on; the parent process never imports nix_manipulator."""
from __future__ import annotations

import multiprocessing as mp
import os
import sys
from concurrent.futures import ProcessPoolExecutor

from .common import GUARD, REPO

NPROC = int(os.environ.get("VERIF_PROCS", "16"))


def _init():
    os.environ[GUARD] = "1"
    os.environ.setdefault("PYTHONHASHSEED", "0")
    if str(REPO) not in sys.path:
        sys.path.insert(0, str(REPO))


def _call(args):
    modname, fname, chunk = args
    import importlib
    covdir = os.environ.get("VERIF_COVERAGE")      # tools/codecov.py: which code of /repo do the checks' cases execute?
    cov = None
    if covdir:
        import coverage
        cov = coverage.Coverage(data_file=os.path.join(covdir, ".coverage"), data_suffix=True, branch=True,
                                source=[str(REPO / "nix_manipulator")])
        cov.start()
    try:
        f = getattr(importlib.import_module(modname), fname)
        return [f(x) for x in chunk]
    finally:
        if cov:
            cov.stop()
            cov.save()


def pmap(modname: str, fname: str, items: list, procs: int | None = None, chunk: int = 200) -> list:
    """Apply harness module function to every item, in order, across worker processes."""
    if not items:
        return []
    procs = procs or NPROC
    os.environ[GUARD] = "1"
    chunks = [items[i:i + chunk] for i in range(0, len(items), chunk)]
    if procs <= 1 or len(chunks) == 1:
        _init()
        out = []
        for c in chunks:
            out.extend(_call((modname, fname, c)))
        return out
    ctx = mp.get_context("fork")   # parent never imports nix_manipulator: children import /repo afresh
    with ProcessPoolExecutor(max_workers=min(procs, len(chunks)), mp_context=ctx, initializer=_init) as ex:
        res = list(ex.map(_call, [(modname, fname, c) for c in chunks]))
    return [x for c in res for x in c]
