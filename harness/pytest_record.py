"""pytest plugin (lives in /verif, loaded with -p): records what the repository's own tests do, so that the same
executions can be judged by the specification (trace validation of the functional tests).
Records: every text handed to parse(), and every set_value / remove_value call with the text before and after."""
from __future__ import annotations

import json
import os


def pytest_configure(config):
    d = os.environ.get("NIMA_RECORD_DIR")
    if not d:
        return
    import nix_manipulator
    import nix_manipulator.cli.main as cli_main
    import nix_manipulator.cli.manipulations as manip
    import nix_manipulator.parser as parser
    out = open(os.path.join(d, f"rec-{os.getpid()}.ndjson"), "a", encoding="utf-8")
    seen: set = set()
    orig_parse = parser.parse

    def parse(source_code, source_path=None):
        try:
            text = source_code.decode("utf-8") if isinstance(source_code, bytes) else source_code
            if isinstance(text, str) and text not in seen and len(text) < 20000:
                seen.add(text)
                out.write(json.dumps({"ev": "parse", "text": text}) + "\n")
                out.flush()
        except Exception:  # noqa: BLE001
            pass
        return orig_parse(source_code, source_path)

    def wrap_edit(name, orig):
        def edit(*a, **k):
            rec = {"ev": name}
            try:
                src = k.get("source", a[0] if a else None)
                rec["npath"] = k.get("npath", a[1] if len(a) > 1 else None)
                if name == "set":
                    rec["value"] = k.get("value", a[2] if len(a) > 2 else None)
                rec["pre"] = src.rebuild()
            except Exception:  # noqa: BLE001
                rec = None
            try:
                res = orig(*a, **k)
            except BaseException as e:
                if rec is not None:
                    try:
                        rec.update(res=type(e).__name__, post=src.rebuild())
                        out.write(json.dumps(rec) + "\n")
                        out.flush()
                    except Exception:  # noqa: BLE001
                        pass
                raise
            if rec is not None and isinstance(res, str):
                rec.update(res="ok", post=res)
                out.write(json.dumps(rec) + "\n")
                out.flush()
            return res
        return edit
    parser.parse = parse
    nix_manipulator.parse = parse
    manip.set_value = wrap_edit("set", manip.set_value)
    manip.remove_value = wrap_edit("rm", manip.remove_value)
    cli_main.set_value = manip.set_value
    cli_main.remove_value = manip.remove_value
    cli_main.parse = parse
