"""setup / self-test: SANY on every module, projection sanity."""
from __future__ import annotations

import sys
from concurrent.futures import ThreadPoolExecutor

from . import tlc
from .project import has_error, has_error_mod_tc, items


def main() -> int:
    mods = sorted(p.stem for p in tlc.SPEC.glob("*.tla"))
    with ThreadPoolExecutor(max_workers=8) as ex:
        list(ex.map(tlc.sany, mods))
    print(f"SANY ok: {len(mods)} modules")
    # projection sanity
    its = items("{ a = 1; # c\n}\n")
    assert [i["k"] for i in its] == ["g", "t", "g", "t", "g", "t", "g", "t", "g", "t", "g", "c", "g", "t", "g"], its
    assert not has_error("{ a = 1; }") and has_error("{ a = ; }")
    assert not has_error_mod_tc("{ a, }: a") and has_error_mod_tc("{ a,, }: a")
    print("projection self-test ok")
    return 0


if __name__ == "__main__":
    sys.exit(main())
