"""./check <ID> [--tier quick|thorough] [--replay PATH]"""
from __future__ import annotations

import argparse
import sys
import traceback

from .common import machinery_failure, tier_seed


def dispatch(prop: str):
    if prop in ("C01", "C03", "C06", "C18"):
        from .engines import layout_checks
        return lambda tier, seed: layout_checks.check(prop, tier, seed)
    if prop in ("C04", "C05", "C08", "C09"):
        from .engines import edit_checks
        return lambda tier, seed: edit_checks.check(prop, tier, seed)
    if prop == "C12":
        from .engines import nixtext
        return nixtext.check
    if prop == "C16":
        from .engines import cli
        return cli.check
    if prop == "C17":
        from .engines import imports
        return imports.check
    if prop in ("C10", "C11"):
        from .engines import scoping
        return lambda tier, seed: scoping.run_engine(prop, tier, seed)
    if prop == "C19":
        from .engines import laws
        return laws.check
    if prop == "C14":
        from .engines import mapping
        return mapping.check
    if prop == "C13":
        from .engines import values
        return values.check
    if prop == "C07":
        from .engines import robust
        return robust.check_c07
    if prop == "C20":
        from .engines import robust
        return robust.check_c20
    if prop == "C15":
        from .engines import proc
        return proc.check
    if prop == "C02":
        from .engines import canon
        return canon.check
    raise SystemExit(f"no check registered for {prop}")


def main(argv=None) -> int:
    ap = argparse.ArgumentParser()
    ap.add_argument("prop")
    ap.add_argument("--tier", default=None)
    ap.add_argument("--replay", default=None)
    a = ap.parse_args(argv)
    tier, seed = tier_seed(a.tier)
    if a.replay:
        from .replay import replay
        return replay(a.prop, a.replay)
    try:
        from . import tlc
        tlc.prune_cache()
        return dispatch(a.prop)(tier, seed)
    except SystemExit:
        raise
    except BaseException as e:  # machinery failure: never a property verdict
        traceback.print_exc()
        return machinery_failure(a.prop, f"{type(e).__name__}: {e}")


if __name__ == "__main__":
    sys.exit(main())
