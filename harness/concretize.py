"""Concretizer: abstract cases emitted by TLC -> concrete Nix text.  Joins strings only;
all syntax knowledge lives in the specification (spec/Gen.tla, spec/Doc.tla)."""
from __future__ import annotations

S, O = "<_>", "<~>"
PALETTE = ["é中 ✓", "naïve — café", "λ→β", "日本語"]
_AMB = {"spaced": {S: " ", O: " "}, "compact": {S: " ", O: ""}, "lines": {S: "\n", O: "\n"}}


def render_gen(d: dict, seed: int = 0) -> str:
    sep = _AMB[d["amb"]]
    fills = {f["slot"]: f["text"] for f in d.get("fills", [])}
    parts = []
    for i, t in enumerate(d["toks"], start=1):
        if t in (S, O):
            parts.append(fills[i] if i in fills else sep[t])
        else:
            parts.append(t)
    body = "".join(parts)
    if d.get("paren"):
        body = "(" + body + ")"
    text = d["lead"] + d["pre"] + body + d["post"] + d["trail"]
    return text.replace("@U@", PALETTE[seed % len(PALETTE)])


def gen_key(d: dict) -> str:
    """Abstract-case signature used for known-finding matching: construct, slot(s), filler class, context."""
    fills = ",".join(f"{f['slot']}:{f['fill']}" for f in d.get("fills", [])) or "-"
    extra = "" if (d["amb"] == "spaced" and d["lead"] == "" and d["trail"] == "\n") else \
        f"|amb={d['amb']}|lead={d['lead']!r}|trail={d['trail']!r}"
    return f"{d['con']}|ctx={d['ctx']}|fill={fills}{extra}"
