"""Concretizer: abstract cases emitted by TLC -> concrete Nix text.  Joins strings only;
all syntax knowledge lives in the specification (spec/Gen.tla, spec/Doc.tla)."""
from __future__ import annotations

S, O = "<_>", "<~>"
PALETTE = ["é中 ✓", "naïve — café", "λ→β", "日本語"]
_AMB = {"spaced": {S: " ", O: " "}, "compact": {S: " ", O: ""}, "lines": {S: "\n", O: "\n"}}


import re as _re
_SECOND = _re.compile(r"\b([cdm])([12])\b")


def render_gen(d: dict, seed: int = 0) -> str:
    sep = _AMB[d["amb"]]
    fills = {f["slot"]: f["text"] for f in d.get("fills", [])}
    if len(fills) > 1:          # the comments of the second filled gap get wordings of their own (c3, c4, d3, m3, m4)
        last = max(fills)
        fills[last] = _SECOND.sub(lambda m: m.group(1) + str(int(m.group(2)) + 2), fills[last])
    parts = []
    for i, t in enumerate(d["toks"], start=1):
        if t in (S, O):
            parts.append(fills[i] if i in fills else sep[t])
        else:
            parts.append(t)
    body = "".join(parts)
    if d.get("paren"):
        body = "(" + body + ")"
    text = d["lead"] + d["pre"] + body + d["post"] + d["trail"]
    return text.replace("@U@", PALETTE[seed % len(PALETTE)])


def gen_key(d: dict) -> str:
    """Abstract-case signature used for known-finding matching: construct, slot(s), filler class, context."""
    fills = ",".join(f"{f['slot']}:{f['fill']}" for f in d.get("fills", [])) or "-"
    extra = "" if (d["amb"] == "spaced" and d["lead"] == "" and d["trail"] == "\n") else \
        f"|amb={d['amb']}|lead={d['lead']!r}|trail={d['trail']!r}"
    return f"{d['con']}|ctx={d['ctx']}|fill={fills}{extra}"


# ---------------------------------------------------------------------------
# Doc records -> canonical (RFC-0166 style) Nix text for the package-file idiom

import re as _re

_BARE = _re.compile(r"^[A-Za-z_][A-Za-z0-9_'-]*$")
_KEYWORDS = {"let", "in", "with", "assert", "if", "then", "else", "rec", "inherit", "or"}


def quote_name(n: str) -> str:
    """Nix spelling of an attribute name (independent of the code under test)."""
    if n.startswith("${dyn}"):
        return n[len("${dyn}"):]
    if _BARE.match(n) and n not in _KEYWORDS:
        return n
    out = []
    i = 0
    while i < len(n):
        ch = n[i]
        if ch == "\\":
            out.append("\\\\")
        elif ch == '"':
            out.append('\\"')
        elif ch == "\n":
            out.append("\\n")
        elif ch == "\r":
            out.append("\\r")
        elif ch == "\t":
            out.append("\\t")
        elif ch == "$" and n[i + 1:i + 2] == "{":
            out.append("\\${")
            i += 2
            continue
        else:
            out.append(ch)
        i += 1
    return '"' + "".join(out) + '"'


def _comment(key: str, ind: int) -> str:
    kind, text = key[:2], key[2:]
    pad = " " * ind
    if kind == "L:":
        return pad + ("# " + text if text else "#")
    opener = "/**" if kind == "D:" else "/*"
    if "\n" in text:
        lines = text.split("\n")
        return pad + opener + "\n" + "\n".join((pad + "  " + ln) if ln else "" for ln in lines) + "\n" + pad + "*/"
    return f"{pad}{opener} {text} */"


def _val(v: dict, ind: int) -> str:
    k = v["k"]
    if k == "int":
        return str(v["v"])
    if k == "ref":
        return v["n"]
    if k == "opq":
        return v["h"]
    pre = "rec " if v.get("rec") else ""
    items = v["items"]
    dang = v.get("dang", [])
    if not items and not dang:
        return pre + "{ }"
    if v.get("ml", True) or dang:
        body = _items(items, ind + 2)
        for c in dang:
            body.append(_comment(c, ind + 2))
        if _LOOSE["on"]:       # non-canonical but valid: blank lines behind the opening and in front of the closing brace
            return pre + "{\n\n" + "\n".join(body) + "\n\n" + " " * ind + "}"
        return pre + "{\n" + "\n".join(body) + "\n" + " " * ind + "}"
    return pre + "{ " + " ".join(_item_inline(x) for x in items) + " }"


def _binding_core(x: dict, ind: int) -> str:
    if x["k"] == "i":
        src = f"({x['src']}) " if x.get("src") else ""
        return f"inherit {src}{' '.join(quote_name(n) for n in x['names'])};"
    eq = "  =  " if _LOOSE["on"] else " = "
    return f"{'.'.join(quote_name(n) for n in x['ap'])}{eq}{_val(x['val'], ind)};"


def _item_inline(x: dict) -> str:
    return _binding_core(x, 0)


def _items(items: list, ind: int) -> list[str]:
    out: list[str] = []
    pad = " " * ind
    for n, x in enumerate(items):
        if x.get("blank") and n > 0:
            out.append("")
        for c in x.get("lead", []):
            out.append(_comment(c, ind))
        line = pad + _binding_core(x, ind)
        if x.get("eol"):
            line += " " + _comment(x["eol"], 0)
        out.append(line)
    return out


WRAP_TEXT = {
    "lam_id": ("x: ", ""),
    "lam_formals": ("{ p, q }:\n", ""),
    "with": ("with p;\n", ""),
    "assert": ("assert c;\n", ""),
    "paren": ("(", ")"),
    "call": ("f ", ""),
    "let": ("let\n  o = 1;\nin\n", ""),      # a let that is NOT directly around the set (no addressable layer)
}


_LOOSE = {"on": False}


def render_doc(d: dict, in_comments: bool = False, loose: bool = False) -> str:
    """Canonical text of an editable document (shape "ok").  in_comments: an own-line comment follows every `in'
    (trivia that belongs to the let layers themselves).  loose: the same document in a valid but non-canonical
    layout (blank lines behind `{', `let', `in' and in front of `}', `in'; padded `=')."""
    _LOOSE["on"] = loose
    try:
        inner = _val(d["body"], 0)
        n = len(d["layers"])
        gap = "\n\n" if loose else "\n"
        for k, layer in enumerate(reversed(d["layers"])):
            note = f"# after in {n - k}\n" if in_comments else ""
            inner = "let" + gap + "\n".join(_items(layer, 2)) + gap + "in" + gap + note + inner
    finally:
        _LOOSE["on"] = False
    for w in reversed(d["wrap"]):
        pre, post = WRAP_TEXT[w]
        inner = pre + inner + post
    head = "".join(_comment(c, 0) + "\n" for c in d.get("lead", []))
    foot = "".join("\n" + _comment(c, 0) for c in d.get("trail", []))
    return head + inner + foot + "\n" * d.get("nl", 1)


# ---------------------------------------------------------------------------
# Scoping chains (Scoping.tla) -> text

def _bind_text(b: dict) -> str:
    if b["k"] == "setv":
        return f"{b['n']} = {{ " + " ".join(_bind_text(x) for x in b["sv"]) + " };"
    if b["k"] == "inhfrom":
        return f"inherit ({b['m']}) {b['n']};"
    if b["k"] == "lit":
        return f"{b['n']} = {b['v']};"
    if b["k"] == "ref":
        return f"{b['n']} = {b['m']};"
    return f"inherit {b['n']};"


def render_chain(ch: list[dict], name: str = "a") -> tuple[str, list[str], bool]:
    """(text, access keys down to the reference, editable) for a chain of frames (outermost first).
    The reference `x = <name>;' sits in a holder set below the last frame, or inside the last frame when that is `rec'."""
    frames = list(ch)
    keys = ["x"]
    formals = None
    call = None
    if frames and frames[-1]["kind"] == "formals" and frames[-1].get("argn"):
        call = frames.pop()              # a call closing the chain: `({ a ? 91 }: { x = a; }) s'
    elif frames and frames[0]["kind"] == "formals":
        formals = frames.pop(0)
    if call is not None:
        fs = ", ".join(f"{b['n']} ? {b['v']}" if b["v"] else b["n"] for b in call["binds"])
        # `...': the argument set may have members that are no formals (without it Nix rejects the call)
        inner = f"({{ {fs}, ... }}: {{ x = {name}; }}) {call['argn']}" if fs else f"({{ ... }}: {{ x = {name}; }}) {call['argn']}"
        keys = ["<call>", "x"]
    elif frames and frames[-1]["kind"] == "rec":
        last = frames.pop()
        inner = "rec { " + " ".join(_bind_text(b) for b in last["binds"]) + f" x = {name}; }}"
    else:
        inner = f"{{ x = {name}; }}"
    seen_set = False
    editable = True
    for f in reversed(frames):
        binds = " ".join(_bind_text(b) for b in f["binds"])
        k = f["kind"]
        if k == "let":
            if not f["binds"]:
                continue
            inner = f"let {binds} in {inner}"
        elif k == "with":
            inner = f"with {{ {binds} }}; {inner}"
        else:
            inner = ("rec " if k == "rec" else "") + "{ " + (binds + " " if binds else "") + f"k = {inner}; }}"
            keys.insert(0, "k")
    if call is not None:
        editable = False
    # editable by `set k...x' iff no let / with frame sits below a set frame
    below_set = False
    for f in frames:
        if f["kind"] in ("rec", "set"):
            below_set = True
        elif below_set and (f["kind"] == "with" or f["binds"]):
            editable = False
    if formals is not None:
        fs = ", ".join(f"{b['n']} ? {b['v']}" if b["v"] else b["n"] for b in formals["binds"])
        args = " ".join(f"{b['n']} = {b['arg']};" for b in formals["binds"] if b["arg"])
        inner = f"({{ {fs} }}: {inner}) {{ {args} }}" if fs else f"({{ }}: {inner}) {{ {args} }}"
        editable = False
    return inner + "\n", keys, editable


# ---------------------------------------------------------------------------
# Damage.tla descriptors -> text

def render_damaged(d: dict, seed: int = 0) -> str:
    if d["kind"] == "soup":
        return " ".join(d["toks"])
    toks = d["toks"]
    parts, cut = [], None
    for i, t in enumerate(toks, start=1):
        if t in (S, O):
            parts.append(" ")
            continue
        if d["kind"] == "damaged" and i == d["at"]:
            f = d["fault"]
            if f == "delete":
                continue
            if f == "duplicate":
                parts.append(t + " " + t)
                continue
            if f == "insert":
                parts.append(d["delim"] + " " + t)
                continue
            if f == "cut_after":
                parts.append(t)
                cut = True
                break
            if f == "cut_inside":
                parts.append(t[: max(1, len(t) // 2)])
                cut = True
                break
        parts.append(t)
    body = "".join(parts)
    if cut:
        text = d["pre"] + ("(" if d.get("paren") else "") + body
    else:
        if d.get("paren"):
            body = "(" + body + ")"
        text = d["pre"] + body + d["post"] + "\n"
    return text.replace("@U@", PALETTE[seed % len(PALETTE)])


# ---------------------------------------------------------------------------
# Canon.tla documents -> RFC-0166 text (the canonical printer of C02)

CANON_HEAD = {
    "none": ("", ""),
    "lam_id": ("finalAttrs: ", ""),
    "lam_formals_inline": ("{ lib, stdenv }:\n", ""),
    "lam_formals_ml": ("{\n  lib,\n  stdenv,\n  fetchurl ? null,\n  ...\n}:\n", ""),
    "lam_formals_ml_cmt": ("{\n  lib,\n  stdenv, # note\n\n  fetchurl ? null,\n  # about the rest\n  ...\n}:\n", ""),
    "lam_formals_at": ("{ lib, ... }@args:\n", ""),
    "call": ("stdenv.mkDerivation ", ""),
    "call_rec": ("stdenv.mkDerivation ", ""),
    "call_paren_lam": ("stdenv.mkDerivation (finalAttrs: ", ")"),
    "lam_call": ("{ lib, stdenv }:\nstdenv.mkDerivation ", ""),
    "with": ("with pkgs;\n", ""),
    "assert": ("assert lib.isString name;\n", ""),
    "header_comment": ("# SPDX-License-Identifier: MIT\n# generated file\n", ""),
}


def _canon_val(v: dict, ind: int, uniq) -> str:
    k = v["k"]
    if k == "lit":
        return v["text"]
    pad = " " * ind
    if k == "list":
        if not v["xs"]:
            return "[ ]"
        if not v["ml"]:
            return "[ " + " ".join(v["xs"]) + " ]"
        return "[\n" + "".join(f"{pad}  {x}\n" for x in v["xs"]) + pad + "]"
    if k == "istr":
        body = "".join((f"{pad}  {ln}\n" if ln else "\n") for ln in v["lines"])
        return "''\n" + body + pad + "''"
    pre = "rec " if v.get("rec") else ""
    if not v["items"]:
        return pre + "{ }"
    if not v["ml"]:
        return pre + "{ " + " ".join(_canon_item_core(x, 0, uniq()) for x in v["items"]) + " }"
    return pre + "{\n" + "\n".join(_canon_items(v["items"], ind + 2, uniq)) + "\n" + pad + "}"


def _canon_item_core(x: dict, ind: int, used: dict) -> str:
    def fresh(n: str) -> str:
        c = used.get(n, 0) + 1
        used[n] = c
        return n if c == 1 else f"{n}{c}"
    if x["k"] == "i":
        names = " ".join(fresh(n) for n in x["names"])
        return f"inherit {'(' + x['src'] + ') ' if x['src'] else ''}{names};"
    return None  # bindings are rendered by the caller (need the value printer)


def _canon_items(items: list, ind: int, uniq) -> list[str]:
    used: dict = {}
    out: list[str] = []
    pad = " " * ind

    def fresh(n: str) -> str:
        c = used.get(n, 0) + 1
        used[n] = c
        return n if c == 1 else f"{n}{c}"
    for n, x in enumerate(items):
        if x.get("blank") and n > 0:
            out.append("")
        for c in x.get("lead", []):
            out.append(_comment(c, ind))
        if x["k"] == "i":
            core = f"inherit {'(' + x['src'] + ') ' if x['src'] else ''}{' '.join(fresh(m) for m in x['names'])};"
        else:
            core = f"{fresh(x['name'])} = {_canon_val(x['val'], ind, uniq)};"
        line = pad + core
        if x.get("eol"):
            line += " " + _comment(x["eol"], 0)
        out.append(line)
    return out


def render_canon(d: dict, seed: int = 0) -> str:
    def uniq():
        return {}
    # inline sets: their items are plain `name = lit;' bindings
    def inline_items(v):
        used: dict = {}
        parts = []
        for x in v["items"]:
            c = used.get(x["name"], 0) + 1
            used[x["name"]] = c
            parts.append(f"{x['name'] if c == 1 else x['name'] + str(c)} = {x['val']['text']};")
        return parts

    def val(v, ind):
        if v["k"] == "set" and v["items"] and not v["ml"]:
            return ("rec " if v.get("rec") else "") + "{ " + " ".join(inline_items(v)) + " }"
        if v["k"] == "set" and v["items"]:
            return ("rec " if v.get("rec") else "") + "{\n" + "\n".join(items(v["items"], ind + 2)) + "\n" + " " * ind + "}"
        return _canon_val(v, ind, uniq)

    def items(its, ind):
        used: dict = {}
        out = []
        pad = " " * ind

        def fresh(n):
            c = used.get(n, 0) + 1
            used[n] = c
            return n if c == 1 else f"{n}{c}"
        for n, x in enumerate(its):
            if x.get("blank") and n > 0:
                out.append("")
            for c in x.get("lead", []):
                out.append(_comment(c, ind))
            if x["k"] == "i":
                core = f"inherit {'(' + x['src'] + ') ' if x['src'] else ''}{' '.join(fresh(m) for m in x['names'])};"
            else:
                core = f"{fresh(x['name'])} = {val(x['val'], ind)};"
            line = pad + core
            if x.get("eol"):
                line += " " + _comment(x["eol"], 0)
            out.append(line)
        return out
    body = ("rec " if d["rec"] or d["head"] == "call_rec" else "")
    body += "{\n" + "\n".join(items(d["items"], 2)) + "\n}" if d["items"] else "{ }"
    pre, post = CANON_HEAD[d["head"]]
    if d.get("gap") == "blank_after_in" and d["head"] in ("with", "assert"):
        pre = pre + "\n# below the head\n"
    text = pre + body + post
    if d["layers"]:
        lets = ["let\n  version = \"1.0\";\n  src = fetchurl { url = \"u\"; };\nin\n", "let\n  pname = \"p\";\nin\n",
                "let\n  inherit (lib) licenses;\n  # why\n  meta = { };\nin\n"]
        let = ""
        gap = d.get("gap", "none")
        for k in range(d["layers"]):
            one = lets[k]
            if gap == "before_in":
                one = one[:-3] + f"\n  # before in {k + 1}\nin\n"
            elif gap == "two_before_in":
                one = one[:-3] + f"\n  # one {k + 1}\n\n  # two {k + 1}\nin\n"
            elif gap == "after_let":
                one = "let\n" + f"  # after let {k + 1}\n" + one[4:]
            elif gap == "blank_after_in":
                one = one + f"\n# below in {k + 1}\n"
            let += one + (f"# after in {k + 1}\n" if d.get("inc") else "")
        if d["head"] in ("lam_formals_ml", "lam_formals_ml_cmt", "lam_formals_inline", "lam_formals_at", "lam_id"):
            text = (pre if d["head"] != "lam_id" else "finalAttrs:\n") + let + body + post
        else:
            text = let + text
    if d["foot"]:
        text += "\n# end of file"
    pal = ["foo", "bar-baz", "qux'", "_private"][seed % 4]
    return text.replace("finalAttrs", pal if pal.isidentifier() else "finalAttrs") + "\n"
