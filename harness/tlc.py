"""TLC runner: invokes tlc2.TLC directly (serial GC: 2 s start-up instead of 8 s),
parses statistics, printed JSON lines and invariant/property violations.

Nothing here depends on /repo.
"""
from __future__ import annotations

import hashlib
import json
import os
import re
import shutil
import subprocess
import tempfile
import time
from dataclasses import dataclass, field
from pathlib import Path

VERIF = Path(__file__).resolve().parent.parent
SPEC = VERIF / "spec"
WORK = VERIF / ".work"
CACHE = VERIF / ".cache"
JAR = "/opt/veriftools/tla/tla2tools.jar"
DEPS = "/opt/veriftools/tla/CommunityModules-deps.jar"


class TLCFailure(RuntimeError):
    """Machinery failure (TLC crashed / spec error) -- never a property verdict."""


@dataclass
class TLCResult:
    stdout: str
    returncode: int
    wall_s: float
    generated: int = 0
    distinct: int = 0
    depth: int = 0
    printed: list = field(default_factory=list)      # decoded JSON objects printed via PrintT(ToJson(..))
    violated: list = field(default_factory=list)     # names of violated invariants / properties
    coverage: dict = field(default_factory=dict)     # action name -> [distinct, total] (with -coverage)
    error: str = ""
    cmd: str = ""


_STATS = re.compile(r"(\d+) states generated, (\d+) distinct states found")
_DEPTH = re.compile(r"The depth of the complete state graph search is (\d+)")
_INV = re.compile(r"Error: Invariant (\S+) is violated")
_PROP = re.compile(r"Error: Action property (\S+) is violated|Error: Temporal properties were violated")
_COV = re.compile(r"^<(\w+) line \d+, col \d+ to line \d+, col \d+ of module (\w+)>: (\d+):(\d+)", re.M)


def java_cmd(workers: int | str = 1, heap: str | None = None, dfid: bool = False) -> list[str]:
    cmd = ["java", "-Xss64m", "-XX:+UseSerialGC" if str(workers) == "1" else "-XX:+UseParallelGC"]
    # without a cap every JVM may grow to a quarter of the machine's memory; eight trace shards then exhaust it
    cmd.append(f"-Xmx{heap or ('4g' if str(workers) == '1' else '20g')}")
    cmd += ["-cp", f"{JAR}:{DEPS}", "tlc2.TLC"]
    return cmd


def run(module: str, cfg: str | Path, *, workers: int | str = 1, env: dict | None = None,
        timeout: int = 1800, extra: tuple = (), heap: str | None = None,
        keep: bool = False, parse_printed: bool = True, spec_dir: Path = SPEC) -> TLCResult:
    """Run TLC on spec/<module>.tla with the given cfg (path, or literal cfg text)."""
    WORK.mkdir(exist_ok=True)
    tmp = Path(tempfile.mkdtemp(prefix="tlc-", dir=WORK))
    try:
        if isinstance(cfg, Path) or (isinstance(cfg, str) and "\n" not in cfg and cfg.endswith(".cfg")):
            cfg_path = Path(cfg)
            if not cfg_path.is_absolute():
                cfg_path = spec_dir / cfg_path
        else:
            cfg_path = tmp / f"{module}.cfg"
            cfg_path.write_text(cfg)
        cmd = java_cmd(workers, heap) + [
            "-workers", str(workers), "-metadir", str(tmp / "meta"), "-noGenerateSpecTE",
            "-nowarning", *extra, "-config", str(cfg_path), str(spec_dir / f"{module}.tla")]
        e = dict(os.environ)
        e.pop("JAVA_TOOL_OPTIONS", None)
        if env:
            e.update({k: str(v) for k, v in env.items()})
        t0 = time.time()
        try:
            p = subprocess.run(cmd, cwd=spec_dir, env=e, capture_output=True, text=True, timeout=timeout)
        except subprocess.TimeoutExpired as ex:
            raise TLCFailure(f"TLC timeout after {timeout}s: {' '.join(cmd)}") from ex
        out = p.stdout + ("\n" + p.stderr if p.stderr.strip() else "")
        res = TLCResult(stdout=out, returncode=p.returncode, wall_s=time.time() - t0, cmd=" ".join(cmd))
        for m in _STATS.finditer(out):
            res.generated, res.distinct = int(m.group(1)), int(m.group(2))
        m = _DEPTH.search(out)
        if m:
            res.depth = int(m.group(1))
        res.violated = [m.group(1) for m in _INV.finditer(out)]
        for m in _PROP.finditer(out):
            res.violated.append(m.group(1) or "TemporalProperty")
        for m in _COV.finditer(out):
            res.coverage[m.group(1)] = [int(m.group(3)), int(m.group(4))]
        if parse_printed:
            for line in out.splitlines():
                if line.startswith('"{') or line.startswith('"['):
                    try:
                        res.printed.append(json.loads(json.loads(line)))
                    except Exception:
                        pass
        # classify failures that are not property verdicts
        if p.returncode != 0 and not res.violated:
            errs = [l for l in out.splitlines() if l.startswith("Error:") or "Exception" in l or "***" in l]
            res.error = "\n".join(errs[:20]) or out[-2000:]
        return res
    finally:
        if not keep:
            shutil.rmtree(tmp, ignore_errors=True)


def run_sharded(module: str, cfg: str, lines: list[str], *, what: str, per_shard: int = 25000, concurrent: int = 8,
                min_shards: int = 1, timeout: int = 3600) -> list[TLCResult]:
    """Judge ndjson trace lines with a trace module: shards of bounded size (bounded JVM heap), a few JVMs at a time."""
    from concurrent.futures import ThreadPoolExecutor
    WORK.mkdir(exist_ok=True)
    tmp = Path(tempfile.mkdtemp(prefix="shards-", dir=WORK))
    try:
        n = max(min_shards, (len(lines) + per_shard - 1) // per_shard, 1)
        files = []
        for k in range(n):
            f = tmp / f"s{k}.ndjson"
            f.write_text("\n".join(lines[k::n]) + "\n")
            files.append(f)

        def one(f):
            return must_ok(run(module, cfg, workers=1, env={"TRACE_FILE": str(f)}, timeout=timeout), f"{what} {f.name}")
        with ThreadPoolExecutor(max_workers=min(concurrent, n)) as ex:
            return list(ex.map(one, files))
    finally:
        shutil.rmtree(tmp, ignore_errors=True)


def must_ok(res: TLCResult, what: str) -> TLCResult:
    if res.error or (res.returncode != 0 and not res.violated):
        raise TLCFailure(f"{what}: TLC failed (rc={res.returncode})\n{res.error}\n--- tail ---\n{res.stdout[-3000:]}")
    return res


def sany(module: str, spec_dir: Path = SPEC) -> None:
    p = subprocess.run(["java", "-XX:+UseSerialGC", "-cp", f"{JAR}:{DEPS}", "tla2sany.SANY", f"{module}.tla"],
                       cwd=spec_dir, capture_output=True, text=True, timeout=300)
    if p.returncode != 0 or "Semantic errors" in p.stdout or "***Parse Error***" in p.stdout or "Fatal errors" in p.stdout:
        raise TLCFailure(f"SANY rejected {module}:\n{p.stdout[-3000:]}")


def spec_digest(*modules: str) -> str:
    h = hashlib.sha256()
    for f in sorted(list(SPEC.glob("*.tla")) + list(SPEC.glob("*.cfg"))):
        h.update(f.name.encode())
        h.update(f.read_bytes())
    return h.hexdigest()[:16]          # (one digest for the whole of spec/: stale cache files are recognisable by name)


def prune_cache() -> None:
    """Drop cached explorations of older versions of the specification (disk space is limited)."""
    if WORK.exists():          # scratch directories left behind by killed runs (older than three hours)
        for f in WORK.iterdir():
            try:
                if time.time() - f.stat().st_mtime > 3 * 3600:
                    shutil.rmtree(f, ignore_errors=True) if f.is_dir() else f.unlink()
            except OSError:
                pass
    if not CACHE.exists():
        return
    d = spec_digest()
    for f in CACHE.iterdir():
        if d not in f.name:
            try:
                f.unlink()
            except OSError:
                pass


def cached(key: str, producer):
    """Cache TLC *exploration* output (depends only on spec+cfg+seed). Replays into /repo are never cached."""
    CACHE.mkdir(exist_ok=True)
    f = CACHE / f"{key}.json"
    if f.exists():
        try:
            return json.loads(f.read_text())
        except Exception:
            f.unlink()
    val = producer()
    tmp = f.with_suffix(".tmp%d" % os.getpid())
    tmp.write_text(json.dumps(val))
    tmp.replace(f)
    return val
