#!/venv/bin/python
"""Run the repository's pinned baseline (guard OFF) and compare with /root/.vp/BASELINE.json stable_pass."""
import json, os, subprocess, sys, tempfile, xml.etree.ElementTree as ET
base = json.load(open("/root/.vp/BASELINE.json"))
out = tempfile.mktemp(suffix=".xml", dir="/tmp")
env = {k: v for k, v in os.environ.items() if k != "NIMA_VERIF"}
subprocess.run(["/venv/bin/python", "-m", "pytest", "-ra", "-q", "-p", "no:cacheprovider", "--timeout=900",
                "--continue-on-collection-errors", f"--junitxml={out}", "-n", os.environ.get("BASELINE_PROCS", "8")],
               cwd="/repo", env=env, stdout=subprocess.DEVNULL, stderr=subprocess.DEVNULL)
passed = set()
for tc in ET.parse(out).getroot().iter("testcase"):
    if not any(ch.tag in ("failure", "error", "skipped") for ch in tc):
        passed.add(f"{tc.get('classname')}::{tc.get('name')}")
os.unlink(out)
missing = [t for t in base["stable_pass"] if t not in passed]
print(f"baseline: {len(base['stable_pass'])} stable tests, {len(passed)} passed now, {len(missing)} stable tests not passing")
for t in missing[:30]:
    print("  NOT PASSING:", t)
sys.exit(1 if missing else 0)
