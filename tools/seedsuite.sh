#!/bin/sh
# Sensitivity suite: every kept seeded change must still make (one of) its checks exit 1 with a key that is not a known finding.
cd /verif || exit 2
for d in seeded/[A-Z]*/; do
  n=$(basename "$d")
  checks=$(/venv/bin/python -c "import json;print(' '.join(json.load(open('$d/meta.json'))['detected_by'][:1]))")
  out=$(SKIP_BASELINE=1 tools/seedtest.sh "/verif/$d" $checks 2>&1 | grep "^check" | cut -c1-140)
  echo "$n :: $out"
done
