#!/venv/bin/python
"""Which code of /repo/nix_manipulator do the quick checks execute?  (coverage.py in the pool workers)
usage: tools/codecov.py [CHECK ...]   -> per-file summary + missing lines, written to .work/codecov.txt"""
import os, shutil, subprocess, sys, tempfile
from pathlib import Path
V = Path(__file__).resolve().parent.parent
d = Path(tempfile.mkdtemp(prefix="cov-", dir="/tmp"))
checks = sys.argv[1:] or [f"C{i:02d}" for i in range(1, 20)]      # C20 measures work under a timer: not under coverage
env = dict(os.environ, VERIF_COVERAGE=str(d))
for c in checks:
    p = subprocess.run([str(V / "check"), c], cwd=V, env=env, capture_output=True, text=True)
    print(c, "rc", p.returncode, file=sys.stderr)
import coverage
cov = coverage.Coverage(data_file=str(d / ".coverage"), branch=True)
cov.combine([str(d)])
(V / ".work").mkdir(exist_ok=True)
with open(V / ".work" / "codecov.txt", "w") as f:
    cov.report(show_missing=True, file=f, skip_covered=False)
print(open(V / ".work" / "codecov.txt").read())
shutil.rmtree(d, ignore_errors=True)
