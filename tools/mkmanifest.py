#!/venv/bin/python
"""Regenerate MANIFEST.json from the table below (single place to edit)."""
import json, subprocess
PROPS = [json.loads(l) for l in open("/verif/properties.jsonl")]

LAYOUT_NOTE = ("Trusted: TLC; tree-sitter-nix 0.1.0 as definition of 'parses without error' and as tokenizer "
               "(a formals trailing comma, which this grammar version rejects although Nix accepts it, is not counted as an error); "
               "harness/project.py (independent of nix_manipulator's AST). Exhaustive only within the Gen.tla product of the tier.")
CHECKS = {
 "C01": dict(engine="layout", cat="model_checking", ref="DESIGN.md §7 C01",
   text="Fmt.tla specifies the formatter as a stream transducer; TLC checks on a bounded model that its behaviours satisfy the token-preservation clause, Gen.tla enumerates every construct x gap slot x filler x context, each program is run through the real parse/rebuild and TLC (Fmt_Trace) decides whether the recorded (input, output) pair is a behaviour of the transducer and parses without error.",
   note=LAYOUT_NOTE, tech="TLA+ transducer spec + TLC trace validation of real round trips"),
 "C03": dict(engine="layout", cat="model_checking", ref="DESIGN.md §7 C03",
   text="Same engine restricted to programs with comments in every gap: TLC judges each recorded round trip with C03_EachOnceInOrder and C03_Sides (comments may cross delimiters only) and checks on the bounded model that the transducer implies both clauses.",
   note=LAYOUT_NOTE, tech="TLA+ transducer spec + TLC trace validation of real round trips"),
 "C06": dict(engine="layout", cat="model_checking", ref="DESIGN.md §7 C06",
   text="Every generated program whose comments are line-level (precondition evaluated by TLC) is round-tripped twice by the real code; TLC judges out2 = out.",
   note=LAYOUT_NOTE + " Oracle-free (self comparison).", tech="TLC-judged double round trip over Gen.tla programs"),
 "C18": dict(engine="layout", cat="model_checking", ref="DESIGN.md §7 C18",
   text="Items!NormalGap is the spacing normal form; TLC evaluates it on every gap of every rebuilt output (string and comment contents are inside items, hence exempt) and on the bounded model shows the transducer only emits normal gaps.",
   note=LAYOUT_NOTE, tech="TLA+ spacing normal form evaluated by TLC on real outputs"),
}
EDIT_NOTE = ("Trusted: TLC; harness/project.py doc() (independent CST reader) and harness/concretize.py render_doc(); the reference "
             "semantics of Doc.tla (DESIGN.md appendix C) with the lenient readings of appendix E. Exhaustive over all depth-1 "
             "transitions of the Edit.tla seed product under several wrapper shapes; longer histories are -simulate walks.")
EDIT_TECH = "TLA+ document state machine (TLC-checked) + TLC trace validation of real edit histories"
CHECKS.update({
 "C04": dict(engine="edit", cat="model_checking", ref="DESIGN.md §7 C04",
   text="Edit.tla is the document state machine; TLC checks on the bounded model that the reference semantics satisfy the frame condition C04_Frame; every depth-1 transition and random longer histories are replayed on one real in-memory document and TLC (Edit_Trace) judges each step: all items but the addressed one identical (attrpath as written, value, comments, blank flags, order), file trivia unchanged, and for canonical input a single contiguous byte region.",
   note=EDIT_NOTE, tech=EDIT_TECH),
 "C05": dict(engine="edit", cat="model_checking", ref="DESIGN.md §7 C05",
   text="Doc.tla states the documented effect of set/rm on the attribute tree (SetEffect/RmEffect), the storage-form rules (attrpath family extended in attrpath form, fresh binding last), NoDuplicate and the admissible refusal reasons; TLC validates them on the model and judges every recorded real step (output parses, tree read back from the output text equals the specified tree, refusals only for specified reasons, never because of wrappers).",
   note=EDIT_NOTE, tech=EDIT_TECH),
 "C08": dict(engine="edit", cat="model_checking", ref="DESIGN.md §7 C08",
   text="C08_Atomic / C08_ErrorClass / C08_Loud: histories interleave failing and succeeding operations on one object; for every raising call TLC requires KeyError/ValueError, projected state = pre-state, identical rebuilt text and identical deep snapshot of the object; operations the specification refuses must raise.",
   note=EDIT_NOTE, tech=EDIT_TECH),
 "C09": dict(engine="edit", cat="model_checking", ref="DESIGN.md §7 C09",
   text="Layers are outermost-first in Doc; selector depth d addresses layers[Len-d+1]. TLC checks C09_Addressing on the model (0..3 layers, same name in several layers) and on every recorded scoped step: only the addressed layer changes, creation adds exactly one innermost layer, an emptied layer disappears and only it, output valid.",
   note=EDIT_NOTE, tech=EDIT_TECH),
})
CHECKS.update({
 "C12": dict(engine="nixtext", cat="model_checking", ref="DESIGN.md §7 C12",
   text="NixText.tla transcribes the NPath tokenizer as a labelled state machine and specifies segment / attribute spelling and Nix's reading of an attribute token; TLC checks round-trip and split-at-dots for every name over 16 character classes up to the bound, then every enumerated name and path text is executed by the real set / set-again / rm (also against a file spelling the name the other way) and TLC (NixText_Trace) tokenizes, decodes the written tokens and judges.",
   note="Trusted: TLC; NixDecode of NixText.tla as 'what Nix reads' (no Nix evaluator offline); tree-sitter for locating the written attribute tokens. Exhaustive up to the tier's length bound (names <= 2/3, path texts <= 3/4 characters, 2 segments).",
   tech="function transcribed to TLA+ (state machine per branch) + TLC-judged execution of every enumerated case"),
})
CHECKS.update({
 "C16": dict(engine="cli", cat="model_checking", ref="DESIGN.md §7 C16",
   text="Cli.tla models invocations on one file that is rewritten by redirecting stdout over it; TLC proves C16_NewlineStable / C16_ErrorSilent for the specified design and refutes them for the `always add a terminator' design (non-vacuity). Every input class x command x channel, single and chained with redirect, is executed through the real main() (plus a subprocess sample) next to the direct library call, and TLC (Cli_Trace) judges each step.",
   note="Trusted: TLC; in-process main(argv) with patched stdio as stand-in for the process (a subprocess sample is compared with it on every run); the library call made next to it is the reference for `what the library computes'.",
   tech="TLA+ CLI state machine (TLC, incl. refuted mutant design) + TLC trace validation of real invocations"),
})
CHECKS.update({
 "C17": dict(engine="imports", cat="model_checking", ref="DESIGN.md §7 C17",
   text="Imports.tla specifies Target(file, spelling) = Normalize(DirOf(file) + spelling) and builds every case (entry, <= 2/3 hops across directories with abs / ./ / plain spellings, 4-6 working directories, 3 entry spellings, 4 faulty arguments); TLC checks that the spellings it generates designate the intended files, each case is materialised with same-named decoy files in every directory and looked up through the real code, and TLC (Imports_Trace) re-resolves and judges value / error class.",
   note="Trusted: TLC; the scratch file system layout written by the harness (outside /repo and /verif, removed afterwards). Exhaustive within the tier's directory tree, hop bound and spelling styles.",
   tech="TLA+ resolution spec, TLC-enumerated layouts executed on the real file system, TLC-judged"),
})
SCOPE_NOTE = ("Trusted: TLC; Scoping.tla as the statement of Nix lexical scoping (DESIGN.md appendix D; no Nix evaluator offline); "
              "harness/project.py chain_of() as independent reader. Exhaustive for chains of <= 2 frames, 25k-sample (quick) / all 266k "
              "(thorough) chains of 3 frames over let / rec / plain set / with, two names, literal / reference / inherit bindings. "
              "Formal parameters and the registry half (address reuse) are covered by the C15 engine's Registry model.")
CHECKS.update({
 "C10": dict(engine="scoping", cat="model_checking", ref="DESIGN.md §7 C10",
   text="Scoping.tla defines Resolve (lexical frames innermost first, then with-environments, inherit followed outward, cycles and unbound names are errors); TLC proves LetBeatsWith / InnermostWins / PlainSetsInvisible / totality on every chain of the model, each chain is rendered, traversed through the real mapping API to the reference, and TLC (Scoping_Trace) compares Identifier.value (value or ResolutionError, under a time limit) with Resolve.",
   note=SCOPE_NOTE, tech="TLA+ scoping semantics (TLC-checked theorems) + TLC-judged real resolutions"),
 "C11": dict(engine="scoping", cat="model_checking", ref="DESIGN.md §7 C11",
   text="DefSite (end of the chain of references under Resolve) is the one binding an edit through a reference may change; for every editable chain the real set_value and Identifier.value assignment are executed, the changed bindings are read back by the independent chain reader, and TLC (Scoping_Trace) requires changed = {DefSite} with the reference left in place, or the path's own binding overwritten when the name is bound nowhere.",
   note=SCOPE_NOTE + " Readings: cycles prescribe nothing; a chain ending in a dangling reference may also overwrite the path's binding; assignment through an unresolvable identifier may raise ResolutionError.",
   tech="TLA+ scoping semantics + TLC-judged real edits through references"),
})
CHECKS.update({
 "C19": dict(engine="laws", cat="model_checking", ref="DESIGN.md §7 C19",
   text="The laws (idempotence, set-then-rm, rm-then-set, commutation) are invariants of Edit.tla that TLC checks over the reference semantics at every reachable seed document; every law instance the model yields is then executed on the real code (both sides, one object each) and TLC (Laws_Trace) compares the two outcomes (texts; attribute trees for rm-then-set).",
   note=EDIT_NOTE + " Oracle-free on the code side: the two executions are compared with each other. Instances whose path holds a reference (aliases, C11) or whose rm would prune a layer are not law instances.",
   tech="laws as TLC invariants of the spec + TLC-compared twin executions of the real code"),
})
CHECKS.update({
 "C14": dict(engine="mapping", cat="model_checking", ref="DESIGN.md §7 C14",
   text="Mapping.tla gives item get/set/del on the document, on nested sets and on the scope mapping a reference semantics over Doc (an attrpath family is one key); TLC checks the dictionary laws (SetGet, DelGet, OthersUntouched, MissingKey) on the model; every depth-1 transition and random histories are replayed on one real object, recording after each step which keys the real mapping reports and the text it rebuilds to, and TLC (Mapping_Trace) judges laws and text/mapping coherence.",
   note=EDIT_NOTE + " Writes through a view synthesized for an attrpath family root (src['f'] for f.x / f.y) are left unspecified; only wrappers that the mapping API's own target resolution supports are used.",
   tech="TLA+ mapping semantics (TLC-checked laws) + TLC trace validation of real get/set/del histories"),
})
CHECKS.update({
 "C13": dict(engine="values", cat="model_checking", ref="DESIGN.md §7 C13",
   text="Values.tla specifies reading Nix data back (string decoding, the Nix float token, negative numbers as unary minus, lists, attribute sets); TLC checks decode(escape(s)) = s for every string over the escaping classes and enumerates values x construction routes; each is rendered by the real API (twice), re-parsed twice, read back by the independent reader, and TLC (Values_Trace) judges validity, ReadBack, determinism and stability.",
   note="Trusted: TLC; Values!Reads as definition of 'read back as Nix data' (no Nix evaluator offline); harness/project.py data(). Exhaustive over the value palette of MC_Values (strings <= 2/3 characters over 11 classes, ints incl. 64-bit extremes, 9 float classes, lists/dicts/nestings) x 7 routes.",
   tech="TLA+ read-back semantics + TLC-judged real renderings of TLC-enumerated values"),
})
CHECKS.update({
 "C07": dict(engine="robust", cat="fault_enumeration", ref="DESIGN.md §7 C07",
   text="Damage.tla injects one fault (token deleted / duplicated, each of 18 delimiters inserted, truncation after / inside each chunk) into every Gen.tla construct in the tier's contexts, plus token soups and non-Nix text; for each text the real rebuild, `nima test', set, rm, the text as VALUE and `nima set' on stdin are executed and TLC (Robust.tla) judges pass-through, Fail/1, refusal and value well-formedness as a function of the two tree-sitter facts `has a syntax error' / `is exactly one expression'.",
   note="Trusted: TLC; tree-sitter-nix 0.1.0 as the definition of 'contains a syntax error' (the library uses the same parser for that decision). Exhaustive over single faults of the generated programs in the tier's contexts.",
   tech="TLA+ fault generator + TLC-judged real executions (fault enumeration)"),
 "C20": dict(engine="robust", cat="model_checking", ref="DESIGN.md §7 C20",
   text="(i) every Damage.tla text: parse+rebuild returns or raises ValueError / NixSyntaxError (TLC, Robust.tla). (ii) Work.tla: renderer calls of a nesting family obey Calls(F,n+1) = 1 + m*Calls(F,n); TLC proves on the model that Poly(c_d, c_2d) at d = 12 passes exactly for families whose multiplicities are all 1; the real counts (every renderer wrapped by a counter) of every family of period <= 2/3 over 16 kinds at depths 12 and 24, and of long flat files, are judged by TLC (Work_Trace).",
   note="Trusted: TLC; renderer-call counts stand for running time (tree-sitter's parse time taken as linear); 5 s CPU guard per case, a trip is reported as a violation. RecursionError beyond Python's recursion limit (operator chains > a few hundred terms) is outside the bound.",
   tech="TLA+ work recurrence (TLC-checked separating test) + TLC-judged measured call counts; TLC-judged error classes on enumerated faults"),
})
CHECKS.update({
 "C15": dict(engine="proc", cat="model_checking", ref="DESIGN.md §7 C15",
   text="Proc.tla models threads at the granularity of the hooked accesses to process-wide state (thread-local parser, source-bytes context variable); TLC proves C15_Isolation / C15_ParserExclusive for the design over all interleavings of 2 (thorough: 3) threads and refutes them for the module-level-parser and module-level-bytes designs. All 924 schedules are replayed with real threads by a cooperative scheduler driven through the guarded hooks and compared with the serial run; the recorded hook events of those runs and of 8 free-running threads are validated by TLC (Proc_Trace). Purity (deep snapshot and text around two rebuilds), processing-order independence in one process and 6 fresh processes (hash seeds x working directories) complete the check.",
   note="Trusted: TLC; the cooperative scheduler; CPython's GIL between two hook points (data races inside one bytecode-atomic step or inside the tree-sitter C library are not modelled). Hooks: guard NIMA_VERIF, add-only.",
   tech="TLA+ thread model (TLC, mutant designs refuted) + deterministic replay of TLC schedules on real threads + TLC trace validation of hook events"),
})
CHECKS["C10"]["text"] += " The histories half: Registry.tla models the identity-keyed context registry with object lifetimes, address reuse and delayed death callbacks (TLC: C10_NoStaleContext holds, refuted without the identity check); create / resolve / discard histories of several documents are run with the guarded hooks and an independent lifetime monitor and validated by TLC (Registry_Trace): every hit returns the context stored for that very object, no result from another document."
CHECKS.update({
 "C02": dict(engine="canon", cat="model_checking", ref="DESIGN.md §7 C02",
   text="Canon.tla builds documents in RFC-0166 layout compositionally (head shapes, let block, bindings with palette values, nested multi-line / inline sets, lists, indented strings, attrpaths, inherit / inherit-from, lead / end-of-line / block comments, blank lines, footer) so that every combination up to the bound is a reachable state; exhaustive small documents plus -simulate documents of 14 parts are rendered by the canonical printer, round-tripped by the real code, and TLC (Fmt_Trace in canonical mode, after checking Inv_C02 on the transducer model) requires output = input item for item and byte for byte.",
   note="Trusted: TLC; the canonical printer render_canon() is this check's reading of RFC 0166 for the package-file idiom (nixfmt is not available offline); layouts that proved arguable are not generated. Exhaustive for documents of <= 1/2 parts per skeleton; larger documents are random walks.",
   tech="TLA+ compositional document builder + TLC-judged byte identity of real round trips"),
})

# extensions of the second build phase (DESIGN.md section 14)
CHECKS["C01"]["text"] += " The corpus also holds programs with TWO filled gaps (the pair space is sampled by -simulate walks of Gen.tla) and, in the thorough tier, every text the repository's own tests parse."
CHECKS["C06"]["text"] += " The same clause (C06_EditStable) is judged on the text emitted by every successful edit step of the edit engine (canonical, layer-trivia and loose renderings of the seeds), and C06_TestAccepts requires that the library does not flag its own rebuilt text as erroneous."
CHECKS["C18"]["text"] += " The indentation clause C18_Indent (own-line comments and closing delimiters follow their structure) is judged on the same outputs, and both clauses on the text an edited document rebuilds to (Norm_Trace.tla)."
CHECKS["C08"]["text"] += " Edit.tla also generates MALFORMED requests (8 kinds of malformed path, 6 kinds of invalid value), alone and inside longer histories: they must be refused and leave the document as it was."
CHECKS["C05"]["text"] += " Values are also spelled with surrounding blanks and with leading / trailing comments (same abstract value), and C05_OthersKept requires the attribute trees of the body and of every other let layer to stay what they were."
CHECKS["C09"]["text"] += " C09 also owns the effect clause for scope-prefixed operations (@name must write the layer's binding) and replays every scoped history on documents with trivia owned by the let layers (a comment after every `in')."
CHECKS["C10"]["text"] += " Calls: a directly applied function whose argument is a NAME closes every chain of <= 2 extended frames (MC_Scoping!AddCall, theorem Thm_CallSiteArg); the argument is resolved at the call site, the call's own let included."
CHECKS["C17"]["text"] += " The working directory may change between two hops (field at of a hop: open, chdir, follow)."
CHECKS["C10"]["text"] += " Docs.tla adds histories in which a reference OBJECT read from one document is assigned into another (scoped or plain) document after the first was discarded: it must resolve in its new place or raise ResolutionError."
CHECKS["C11"]["text"] += " Every editable chain also runs the three-step history set x; set @a; set x on ONE object; the third step is judged on the chain the second step left behind."
CHECKS["C12"]["text"] += " Reserved words of the grammar are names as well: bare in a path, they must be written quoted in the file."
CHECKS["C14"]["text"] += " The operation copy (m[dest] = m[src], dest = src or fresh) hands a looked-up value (explicit or merged attrpath family) back to the mapping."
CHECKS["C15"]["text"] += " Purity is also checked for documents BUILT through the API from the list / dict values of MC_Values (layout decisions taken at rebuild time must not be stored on the tree)."
CHECKS["C19"]["text"] += " Scoped law instances are also run on documents with a comment after every `in'."
CHECKS["C07"]["text"] += " Edits are attempted through plain, nested, quoted and scope-prefixed (@, @@) paths, through the library and `nima set' / `nima rm'."
import os
built = {p: m for p, m in CHECKS.items()}
checks = []
for pid, m in built.items():
    checks.append({
        "property_id": pid,
        "quick_cmd": f"./check {pid} --tier quick",
        "thorough_cmd": f"./check {pid} --tier thorough",
        "evidence_file": f"/verif/evidence/{pid}.json",
        "replay_cmd_template": f"./check {pid} --replay {{path}}",
        "engine": m["engine"],
        "level_claimed": {"category": m["cat"], "text": m["text"], "design_ref": m["ref"]},
        "level_note": m["note"],
        "technique": m["tech"],
    })
hooks_commits = subprocess.run(["git", "-C", "/repo", "log", "--format=%h %s", "--grep=^hooks:"], capture_output=True, text=True).stdout.split("\n")
man = {
 "version": 1,
 "setup_cmd": "./setup.sh",
 "hooks": {"guard": "NIMA_VERIF", "enable": "NIMA_VERIF=1 in the environment of the worker processes that import /repo (the checks set it themselves; /venv has an editable install of /repo, so the current working tree is what runs)",
           "baseline_off_cmd": "cd /repo && env -u NIMA_VERIF /venv/bin/python -m pytest -ra -q -p no:cacheprovider --timeout=900 --continue-on-collection-errors",
           "source_commits": [c.split()[0] for c in hooks_commits if c.strip()], "add_only": True},
 "engines": [
   {"name": "layout", "path": "harness/engines/layout.py", "serves_properties": ["C01", "C03", "C06", "C18"],
    "kind_free_text": "spec/Gen.tla (grammar as data) -> real parse/rebuild -> spec/Fmt_Trace.tla (TLC judges every recorded round trip)"},
   {"name": "edit", "path": "harness/engines/edit.py", "serves_properties": ["C04", "C05", "C08", "C09"],
    "kind_free_text": "spec/Doc.tla + spec/Edit.tla (document state machine, reference semantics) -> histories replayed on one real document -> spec/Edit_Trace.tla"},
   {"name": "nixtext", "path": "harness/engines/nixtext.py", "serves_properties": ["C12"],
    "kind_free_text": "spec/NixText.tla + MC_NixText (names / path texts over character classes) -> real set/set/rm -> spec/NixText_Trace.tla"},
   {"name": "cli", "path": "harness/engines/cli.py", "serves_properties": ["C16"],
    "kind_free_text": "spec/Cli.tla -> real main()/subprocess invocations, chains with redirect -> spec/Cli_Trace.tla"},
   {"name": "imports", "path": "harness/engines/imports.py", "serves_properties": ["C17"],
    "kind_free_text": "spec/Imports.tla (layouts, spellings, Target) -> real parse_file/import lookups on a scratch tree -> spec/Imports_Trace.tla"},
   {"name": "scoping", "path": "harness/engines/scoping.py", "serves_properties": ["C10", "C11"],
    "kind_free_text": "spec/Scoping.tla + MC_Scoping (all chains) -> real traversal / Identifier.value / set through reference -> spec/Scoping_Trace.tla"},
   {"name": "laws", "path": "harness/engines/laws.py", "serves_properties": ["C19"],
    "kind_free_text": "law instances from spec/Edit.tla transitions -> twin executions on the real code -> spec/Laws_Trace.tla"},
   {"name": "mapping", "path": "harness/engines/mapping.py", "serves_properties": ["C14"],
    "kind_free_text": "spec/Mapping.tla (extends Edit/Doc) -> real item get/set/del histories on one object -> spec/Mapping_Trace.tla"},
   {"name": "values", "path": "harness/engines/values.py", "serves_properties": ["C13"],
    "kind_free_text": "spec/Values.tla + MC_Values (values x routes) -> real construction API -> spec/Values_Trace.tla"},
   {"name": "robust", "path": "harness/engines/robust.py", "serves_properties": ["C07", "C20"],
    "kind_free_text": "spec/Damage.tla (faults) + spec/Work.tla (nesting families) -> real library / CLI, renderer-call counters -> spec/Robust.tla, spec/Work_Trace.tla"},
   {"name": "proc", "path": "harness/engines/proc.py", "serves_properties": ["C15"],
    "kind_free_text": "spec/Proc.tla (threads x hook points) -> harness/sched.py cooperative scheduler on real threads, free-running threads, fresh processes -> spec/Proc_Trace.tla"},
   {"name": "canon", "path": "harness/engines/canon.py", "serves_properties": ["C02"],
    "kind_free_text": "spec/Canon.tla (canonical documents built part by part) -> canonical printer -> real parse/rebuild -> spec/Fmt_Trace.tla canonical mode"},
 ],
 "checks": checks,
 "notes": "All checks: ./check <ID> [--tier quick|thorough]; VERIF_SEED / VERIF_TIER honoured. Known findings: known_findings.json. See DESIGN.md.",
 "not_applicable": [{"property_id": p["id"], "reason": "check not built yet (framework under construction; see DESIGN.md §11)"}
                    for p in PROPS if p["id"] not in built],
}
json.dump(man, open("/verif/MANIFEST.json", "w"), indent=1)
print("checks:", len(checks), "not_applicable:", len(man["not_applicable"]))
