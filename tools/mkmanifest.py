#!/venv/bin/python
"""Regenerate MANIFEST.json from the table below (single place to edit)."""
import json, subprocess
PROPS = [json.loads(l) for l in open("/verif/properties.jsonl")]

LAYOUT_NOTE = ("Trusted: TLC; tree-sitter-nix 0.1.0 as definition of 'parses without error' and as tokenizer "
               "(a formals trailing comma, which this grammar version rejects although Nix accepts it, is not counted as an error); "
               "harness/project.py (independent of nix_manipulator's AST). Exhaustive only within the Gen.tla product of the tier.")
CHECKS = {
 "C01": dict(engine="layout", cat="model_checking", ref="DESIGN.md §7 C01",
   text="Fmt.tla specifies the formatter as a stream transducer; TLC checks on a bounded model that its behaviours satisfy the token-preservation clause, Gen.tla enumerates every construct x gap slot x filler x context, each program is run through the real parse/rebuild and TLC (Fmt_Trace) decides whether the recorded (input, output) pair is a behaviour of the transducer and parses without error.",
   note=LAYOUT_NOTE, tech="TLA+ transducer spec + TLC trace validation of real round trips"),
 "C03": dict(engine="layout", cat="model_checking", ref="DESIGN.md §7 C03",
   text="Same engine restricted to programs with comments in every gap: TLC judges each recorded round trip with C03_EachOnceInOrder and C03_Sides (comments may cross delimiters only) and checks on the bounded model that the transducer implies both clauses.",
   note=LAYOUT_NOTE, tech="TLA+ transducer spec + TLC trace validation of real round trips"),
 "C06": dict(engine="layout", cat="model_checking", ref="DESIGN.md §7 C06",
   text="Every generated program whose comments are line-level (precondition evaluated by TLC) is round-tripped twice by the real code; TLC judges out2 = out.",
   note=LAYOUT_NOTE + " Oracle-free (self comparison).", tech="TLC-judged double round trip over Gen.tla programs"),
 "C18": dict(engine="layout", cat="model_checking", ref="DESIGN.md §7 C18",
   text="Items!NormalGap is the spacing normal form; TLC evaluates it on every gap of every rebuilt output (string and comment contents are inside items, hence exempt) and on the bounded model shows the transducer only emits normal gaps.",
   note=LAYOUT_NOTE, tech="TLA+ spacing normal form evaluated by TLC on real outputs"),
}
import os
built = {p: m for p, m in CHECKS.items()}
checks = []
for pid, m in built.items():
    checks.append({
        "property_id": pid,
        "quick_cmd": f"./check {pid} --tier quick",
        "thorough_cmd": f"./check {pid} --tier thorough",
        "evidence_file": f"/verif/evidence/{pid}.json",
        "replay_cmd_template": f"./check {pid} --replay {{path}}",
        "engine": m["engine"],
        "level_claimed": {"category": m["cat"], "text": m["text"], "design_ref": m["ref"]},
        "level_note": m["note"],
        "technique": m["tech"],
    })
hooks_commits = subprocess.run(["git", "-C", "/repo", "log", "--format=%h %s", "--grep=^hooks:"], capture_output=True, text=True).stdout.split("\n")
man = {
 "version": 1,
 "setup_cmd": "./setup.sh",
 "hooks": {"guard": "NIMA_VERIF", "enable": "NIMA_VERIF=1 in the environment of the worker processes that import /repo (the checks set it themselves; /venv has an editable install of /repo, so the current working tree is what runs)",
           "baseline_off_cmd": "cd /repo && env -u NIMA_VERIF /venv/bin/python -m pytest -ra -q -p no:cacheprovider --timeout=900 --continue-on-collection-errors",
           "source_commits": [c.split()[0] for c in hooks_commits if c.strip()], "add_only": True},
 "engines": [
   {"name": "layout", "path": "harness/engines/layout.py", "serves_properties": ["C01", "C03", "C06", "C18"],
    "kind_free_text": "spec/Gen.tla (grammar as data) -> real parse/rebuild -> spec/Fmt_Trace.tla (TLC judges every recorded round trip)"},
 ],
 "checks": checks,
 "notes": "All checks: ./check <ID> [--tier quick|thorough]; VERIF_SEED / VERIF_TIER honoured. Known findings: known_findings.json. See DESIGN.md.",
 "not_applicable": [{"property_id": p["id"], "reason": "check not built yet (framework under construction; see DESIGN.md §11)"}
                    for p in PROPS if p["id"] not in built],
}
json.dump(man, open("/verif/MANIFEST.json", "w"), indent=1)
print("checks:", len(checks), "not_applicable:", len(man["not_applicable"]))
