#!/bin/sh
# usage: seedtest.sh <seed-dir> <check-id>...   — apply the seeded change to /repo, run checks, undo.
sd="$1"; shift
cd /repo || exit 2
git diff --quiet || { echo "/repo not clean"; exit 2; }
git apply "$sd/patch.diff" || { echo "patch does not apply"; exit 2; }
trap 'git -C /repo checkout -- . ' EXIT
if [ -f "$sd/demo.py" ]; then
  (cd /tmp && PYTHONPATH=/repo /venv/bin/python "$sd/demo.py" >/dev/null 2>&1); echo "demo_with_change_rc=$?"
fi
if [ -z "$SKIP_BASELINE" ]; then /verif/tools/baseline.py | head -3; fi
cd /verif
for c in "$@"; do
  ./check "$c" > /tmp/seedtest_$c.log 2>&1; rc=$?
  echo "check $c rc=$rc  $(grep -c '^VIOLATION' /tmp/seedtest_$c.log) violation lines; first: $(grep -m1 '^VIOLATION' /tmp/seedtest_$c.log | cut -c1-200)"
done
