#!/venv/bin/python
"""List violation keys found by the last runs (replay/<prop>/*.json) that are not yet in known_findings.json;
with --accept PROP 'root cause text' [KEY-SUBSTRING ...] record them as reviewed known findings."""
import glob, json, sys
KF = "/verif/known_findings.json"
try:
    kf = json.load(open(KF))
except FileNotFoundError:
    kf = {"findings": [], "fixed": []}
have = {(f["property"], f["key"]) for f in kf["findings"]}


def load(prop):
    seen = {}
    for f in sorted(glob.glob(f"/verif/replay/{prop}/*.json")):
        d = json.load(open(f))
        seen.setdefault(d["key"], d)
    return seen


if len(sys.argv) > 1 and sys.argv[1] == "--accept":
    prop, what, subs = sys.argv[2], sys.argv[3], sys.argv[4:]
    n = 0
    for k, d in load(prop).items():
        if (prop, k) in have or (subs and not any(s in k for s in subs)):
            continue
        det = d["detail"]
        wit = {x: det[x] for x in ("input", "output", "output2", "exception", "ops", "path", "value", "argv", "history") if x in det}
        kf["findings"].append({"property": prop, "key": k, "status": "known", "what": what,
                               "clause": d["clause"], "witness": wit})
        n += 1
    kf["findings"].sort(key=lambda f: (f["property"], f["key"]))
    json.dump(kf, open(KF, "w"), indent=1, ensure_ascii=False)
    print("accepted", n)
else:
    for prop in sys.argv[1:]:
        for k, d in load(prop).items():
            if (prop, k) not in have:
                det = d["detail"]
                print("##", prop, k)
                for x in ("input", "output", "output2", "exception", "ops", "history"):
                    if x in det:
                        print(f"   {x}: {det[x]!r}"[:230])
